"""
Seeded corpus of PLSS description texts, tract description blocks and TRS
strings.  Pure Python; never calls pyTRS (it runs in the pristine zygote).

The texts are a vehicle: what matters is that histories over them reach
tracts *with* flags, lots, acreages, errors, multiple Twp/Rge, and that every
setting has texts on which it changes the outcome (WITNESS).

Known slow shapes are excluded by construction: a Twp/Rge string never occurs
more than twice in one description, no dot leaders, <= 250 characters.
"""

# --------------------------------------------------------------------------
# Tract-level description blocks.  (text, tags)
# --------------------------------------------------------------------------

ALIQUOTS_SLASH = [
    "NE/4", "NW/4", "SE/4", "SW/4", "N/2", "S/2", "E/2", "W/2",
    "N/2NE/4", "S/2SW/4", "E/2NW/4", "W/2SE/4", "NE/4NW/4", "SW/4SE/4",
    "S/2N/2NE/4", "E/2NE/4SW/4", "N/2S/2", "NW/4NE/4SE/4",
    "E/2N/2NE/4", "N/2E/2", "NE/4N/2", "W/2S/2SW/4",
]
ALIQUOTS_WORDS = [
    "Northeast Quarter", "North Half of the Southwest Quarter",
    "Southeast Quarter of the Northwest Quarter", "West Half",
    "South Half of the North Half",
]
ALIQUOTS_FRAC = ["NE¼", "N½SW¼", "E½NE¼NW¼", "SW¼SE¼"]
ALIQUOTS_BARE = ["NE", "NE NW", "SW SE", "N2", "S2NE"]   # need clean_qq

LOT_BLOCKS = [
    "Lot 1", "Lots 1, 2", "Lots 1 - 3", "Lots 1, 2 and 4", "Lot 1(38.29)",
    "Lot 1(38.29), Lot 2(40.00)", "Lots 1(38.29), 2(39.01) and 3(40.12)",
    "Lots 1, 1",                                     # dup_lot
    "Lot 2, Lot 3, Lot 2",                           # dup_lot
    "Lot 1(38.29), Lot 1(39.00)",                    # dup_lot_acreage + dup_lot
    "Lots 5 - 3",                                    # nonsequential_lots
    "N/2 of Lot 1", "N/2 of Lots 1 - 3", "E/2 of Lot 4, Lot 5",
    "NE/4 of Lot 1", "N/2SW/4 of Lot 3, Lot 4", "W/2E/2 of Lots 2 and 3",
    "L1, L2", "Lots 1 through 4",
]

FLAGGY_TAILS = [
    ", less and except the wellbore of the Johnson #1 well",
    ", insofar as it covers depths below 5,000 feet",
    ", including all minerals",
    ", limited to depths from the surface to 100' below the base of the Dakota",
    " lying north of the river",
]


def gen_block(rng, want_flags=False):
    """One tract description block (what ends up in Tract.desc)."""
    parts = []
    n = rng.choice((1, 1, 2, 2, 3))
    for _ in range(n):
        r = rng.random()
        if r < 0.40:
            parts.append(rng.choice(LOT_BLOCKS))
        elif r < 0.80:
            parts.append(rng.choice(ALIQUOTS_SLASH))
        elif r < 0.88:
            parts.append(rng.choice(ALIQUOTS_WORDS))
        elif r < 0.94:
            parts.append(rng.choice(ALIQUOTS_FRAC))
        else:
            parts.append(rng.choice(ALIQUOTS_BARE))
    if want_flags or rng.random() < 0.35:
        # force a duplicate lot and/or duplicate aliquot
        r = rng.random()
        if r < 0.4:
            parts.append(parts[0])
        elif r < 0.7:
            parts.extend(["Lots 1, 1", rng.choice(("NE/4", "N/2NE/4"))])
        else:
            a = rng.choice(ALIQUOTS_SLASH[:8])
            parts.extend([a, a])
    sep = rng.choice((", ", ", ", "; ", " and ", ",\n"))
    txt = sep.join(parts)
    if rng.random() < 0.15:
        txt += rng.choice(FLAGGY_TAILS)
    if rng.random() < 0.05:
        txt = 'ALL'
    if rng.random() < 0.05:
        txt = 'that part of the "Old Smith Place", ' + txt
    return txt


# --------------------------------------------------------------------------
# Twp/Rge
# --------------------------------------------------------------------------

def gen_twprge_nums(rng, k):
    """k distinct (twp, ns, rge, ew) tuples."""
    seen, out = [], []
    while len(out) < k:
        t, r = rng.randint(1, 160), rng.randint(1, 105)
        if (t, r) in seen:
            continue
        seen.append((t, r))
        out.append((t, rng.choice("NNNS"), r, rng.choice("WWWE")))
    return out


def fmt_twprge(rng, tr, style=None):
    t, ns, r, ew = tr
    style = style if style is not None else rng.randrange(9)
    if style == 0:
        return f"T{t}{ns}-R{r}{ew}"
    if style == 1:
        full = {"N": "North", "S": "South", "E": "East", "W": "West"}
        return f"Township {t} {full[ns]}, Range {r} {full[ew]}"
    if style == 2:
        return f"T{t}{ns} R{r}{ew}"
    if style == 3:
        return f"{t}{ns}-{r}{ew}"
    if style == 4:
        return f"T{t}-R{r}"              # both directions missing
    if style == 5:
        return f"T{t}{ns}-R{r}"          # E/W missing
    if style == 6:
        return f"T{t}-R{r}{ew}"          # N/S missing
    if style == 7:
        return f"T{t}{ns.lower()}-R{r}{ew.lower()}"
    if style == 10:
        return f"T{t}-{r}{ew}"           # no 'R', N/S missing
    if style == 11:
        return f"{t}{ns}-R{r}"           # no 'T', E/W missing
    if style == 9:
        # OCR look-alikes in the numbers (needs ocr_scrub to be read)
        tt = str(t).replace("1", "I").replace("0", "O").replace("5", "S")
        rr = str(r).replace("1", "l").replace("0", "O")
        return f"T{tt}{ns}-R{rr}{ew}"
    return f"T{t}{ns}-R{r}{ew}, 5th P.M."


# other spellings on which the same setting makes a difference
WITNESS_ALT = {
    "default_ns": ["T154-97W Sec 14: NE/4, Lots 1, 1",
                   "T154-R97W Sec 14: NE/4\nT155-98E Sec 1: W/2"],
    "default_ew": ["154N-R97 Sec 14: NE/4\nSec 15: W/2",
                   "T154N-R97 Sec 14: NE/4, 155S-R98 Sec 1: W/2"],
}


def witness(rng, table, name):
    alts = WITNESS_ALT.get(name, []) if table is WITNESS else []
    return rng.choice([table[name]] + alts) if alts and rng.random() < 0.5 \
        else table[name]


def fmt_sec(rng, nums, colon=True):
    c = ":" if colon else ""
    if len(nums) == 1:
        w = rng.choice(("Sec", "Section", "Sec.", "Sec"))
        return f"{w} {nums[0]}{c}"
    w = rng.choice(("Secs", "Sections"))
    if len(nums) == 2:
        return f"{w} {nums[0]} and {nums[1]}{c}"
    if nums == list(range(nums[0], nums[0] + len(nums))) and rng.random() < 0.7:
        return f"{w} {nums[0]} - {nums[-1]}{c}"
    return f"{w} {', '.join(str(n) for n in nums[:-1])} and {nums[-1]}{c}"


def gen_sec_nums(rng):
    r = rng.random()
    if r < 0.75:
        return [rng.randint(1, 36)]
    if r < 0.9:
        a = rng.randint(1, 33)
        return list(range(a, a + rng.randint(2, 3)))
    a = rng.sample(range(1, 37), rng.randint(2, 3))
    return a


# --------------------------------------------------------------------------
# Full descriptions
# --------------------------------------------------------------------------

def gen_desc(rng, max_len=250):
    """A full PLSS description text."""
    for _ in range(20):
        txt = _decorate(rng, _gen_desc_once(rng))
        if len(txt) <= max_len:
            return txt
    return "T154N-R97W Sec 14: NE/4"


def _decorate(rng, txt):
    """Rare but realistic dressing of a description."""
    r = rng.random()
    if r < 0.04:
        txt += rng.choice((";", ",", " and", ":", " -", " of the", "."))
    elif r < 0.06:
        txt = txt.replace("\n", "\r\n")          # Windows line endings
    elif r < 0.075:
        txt = txt.replace("\n", "\r")             # old Mac / broken export
    elif r < 0.085:
        txt = rng.choice(("=", "@ ", "+", "-")) + txt
    elif r < 0.11:
        a = rng.randint(1, 12)
        b = a + rng.randint(15, 22)
        t, rr = rng.randint(1, 160), rng.randint(1, 105)
        txt = (f"T{t}N-R{rr}W Sections {a} - {min(b, 36)}: "
               + rng.choice(("N/2NE/4, NE/4", "Lots 1, 1", "ALL",
                             "Lots 3 - 1, W/2")))
    return txt


def _gen_desc_once(rng):
    r = rng.random()
    if r < 0.08:
        return rng.choice(HANDPICKED)
    if r < 0.12:
        # no Twp/Rge or no section at all -> copy_all fallback
        return rng.choice((
            gen_block(rng), "The north 100 feet of the old homestead",
            "Sec 14: NE/4", "T154N-R97W the NE/4", ""))
    layout = rng.choice(("TRS_desc", "TRS_desc", "TRS_desc", "desc_STR",
                         "TR_desc_S", "S_desc_TR"))
    n_tr = rng.choice((1, 1, 1, 2, 2, 3))
    trs = gen_twprge_nums(rng, n_tr)
    style = rng.randrange(12) if rng.random() < 0.6 else 0
    if rng.random() < 0.05:
        style = 9
    nl = rng.choice(("\n", "\n", " ", ", "))
    out = []
    for tr in trs:
        trtxt = fmt_twprge(rng, tr, style)
        n_sec = rng.choice((1, 1, 2, 2, 3))
        secs = [(gen_sec_nums(rng), gen_block(rng)) for _ in range(n_sec)]
        if layout == "TRS_desc":
            colon = rng.random() < 0.85
            body = nl.join(
                f"{fmt_sec(rng, s, colon)} {b}" for s, b in secs)
            out.append(f"{trtxt}{nl}{body}")
        elif layout == "desc_STR":
            body = ", ".join(
                f"{b} of {fmt_sec(rng, s, False)}" for s, b in secs)
            out.append(f"{body}, {trtxt}")
        elif layout == "TR_desc_S":
            body = ", ".join(
                f"{b} of {fmt_sec(rng, s, False)}" for s, b in secs)
            out.append(f"{trtxt}, {body}")
        else:  # S_desc_TR
            body = ", ".join(
                f"{fmt_sec(rng, s, True)} {b}" for s, b in secs)
            out.append(f"{body}, {trtxt}")
    return rng.choice(("\n", "\n", "; ", " ")).join(out)


# Hand-picked texts: every setting's witness plus a few awkward shapes.
WITNESS = {
    "default_ns": "T154-R97 Sec 14: NE/4, Lots 1, 1",
    "default_ew": "T154N-R97 Sec 14: NE/4\nSec 15: W/2",
    "layout": "T154N-R97W Sec 14: NE/4, Sec 15: W/2",
    "wait_to_parse": "T154N-R97W Sec 14: NE/4",
    "parse_qq": "T154N-R97W Sec 14: Lots 1, 1, N/2NE/4",
    "clean_qq": "T154N-R97W Sec 14: N/2 of Lot 1, NE NW, S/2N/2NE/4",
    "sec_colon_required": "T154N-R97W Sec 14 NE/4, Sec 15: W/2",
    "sec_colon_cautious": "T154N-R97W Sec 14 NE/4, Sec 15: W/2",
    "suppress_lot_divs": "T154N-R97W Sec 14: N/2 of Lot 1, NE/4",
    "ocr_scrub": "TlS4N-Rl0lW Sec 14: NE/4",   # unreadable unless scrubbed
    "segment": "T154N-R97W Sec 14: NE/4\nT155N-R97W W/2 of Section 15",
    "qq_depth": "T154N-R97W Sec 14: E/2N/2NE/4, S/2N/2NE/4, E/2NE/4SW/4",
    "qq_depth_min": "T154N-R97W Sec 14: S/2N/2NE/4, NW/4",
    "qq_depth_max": "T154N-R97W Sec 14: S/2N/2NE/4, E/2NE/4SW/4",
    "break_halves": "T154N-R97W Sec 14: S/2N/2NE/4, E/2NE/4SW/4",
    "sec_within": "That part of the NE/4 of Sec 14 lying within the "
                  "right-of-way, T154N-R97W",
}

# Tract-level witnesses (Tract.desc) for the settings a Tract consumes.
TRACT_WITNESS = {
    "parse_qq": "Lots 1, 1, N/2NE/4",
    "clean_qq": "N/2 of Lot 1, NE NW, S/2N/2NE/4",
    "suppress_lot_divs": "N/2 of Lot 1, NE/4",
    "qq_depth": "E/2N/2NE/4, S/2N/2NE/4, E/2NE/4SW/4",
    "qq_depth_min": "S/2N/2NE/4, NW/4",
    "qq_depth_max": "S/2N/2NE/4, E/2NE/4SW/4, N/2E/2",
    "break_halves": "S/2N/2NE/4, E/2NE/4SW/4",
}

HANDPICKED = sorted(set(WITNESS.values())) + [
    "T154N-R97W Sec 14: NE/4 of Lot 1, N/2SW/4 of Lot 3, Lot 4(39.5)\nSec 15: W/2E/2 of Lots 2 and 3, S/2",
    "TI54N-R97W Sec 14: NE/4",       # readable both ways, differently
    "T154N-R97W\nSec 14: NE/4\nSec 15: Northwest Quarter, North Half South West Quarter",
    "T154N-R97W Sec 14: Lots 1, 1, NE/4, NE/4\nSec 15: Lot 1(38.29), Lot 1(39.00)",
    "T154N-R97W Secs 1 - 3: ALL",
    "NE/4 of Sec 14, T154N-R97W; T155N-R97W Sec 15: W/2",
    "T154N-R97W That part of Sec 14 lying north of the river",
    "T154N-R97W Sec 14: NE/4, less and except the wellbore of the Johnson #1 well",
    "T154N-R97W Sec 14: Lots 5 - 3, W/2",
    "Township 154 North, Range 97 West\nSection 14: N/2 of Lots 1 - 3\nSection 15: NE/4, NE/4",
    "T154N-R97W Sec 14 NE/4",
    'T154N-R97W Sec 14: NE/4, "the Smith tract", and Lot 1(38.29)',
]


def gen_trs_string(rng):
    """A TRS-ish string: valid, upper-case, near-miss, empty, undefined, error."""
    r = rng.random()
    t, rg, s = rng.randint(1, 160), rng.randint(1, 105), rng.randint(1, 36)
    ns, ew = rng.choice("ns"), rng.choice("ew")
    if r < 0.55:
        return f"{t}{ns}{rg}{ew}{s:02d}"
    if r < 0.65:
        return f"{t}{ns.upper()}{rg}{ew.upper()}{s:02d}"
    if r < 0.72:
        return f"{t}{ns}{rg}{ew}"                  # no section
    if r < 0.78:
        return f"{t}{ns}{rg}{ew}0{s:02d}"          # '154n97w014'
    if r < 0.83:
        return f"1{t:03d}{ns}{rg}{ew}{s:02d}"      # four-digit twp
    if r < 0.87:
        return ""
    if r < 0.91:
        return "___z___z__"
    if r < 0.95:
        return "XXXzXXXzXX"
    if r < 0.965:
        return f"{t}{ns}{rg}{ew}XX"
    if r < 0.975:
        return f" {t}{ns}{rg}{ew}{s:02d} "
    if r < 0.988:
        return f"{t}{ns}{rg}{ew} {s:02d}"          # blank inside
    return f"{t}{ns} {rg}{ew}{s:02d}"


def gen_corpus(rng, n_desc=6, n_blocks=4, n_trs=6):
    return {
        "descs": [gen_desc(rng) for _ in range(n_desc)],
        "blocks": [gen_block(rng) for _ in range(n_blocks)],
        "trs": [gen_trs_string(rng) for _ in range(n_trs)],
    }
