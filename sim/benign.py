"""
Behaviour-preserving refactorings of pyTRS: every check must stay silent on
them (exit 0, no VIOLATION line).  Used by `check.py selftest soundness`.

Each entry: (name, [properties whose checks to run], [(file, old, new), ...]).
"""

_CSV_OLD = '''        with open(fp, mode=mode, newline="") as file:
            writer = csv.writer(file)
            if headers:
                writer.writerow(header_row)
            for tract in self:
                row = tract.to_list(attributes)
                row = scrub_row(row)
                writer.writerow(row)
        return None'''

_CSV_TEMPFILE = '''        if mode != "w":
            with open(fp, mode=mode, newline="") as file:
                writer = csv.writer(file)
                if headers:
                    writer.writerow(header_row)
                for tract in self:
                    writer.writerow(scrub_row(tract.to_list(attributes)))
            return None
        # New file: write to a temporary sibling, then move it into place.
        import os
        tmp = fp.with_name(fp.name + ".tmp")
        try:
            with open(tmp, mode="w", newline="") as file:
                writer = csv.writer(file)
                writer.writerow(header_row)
                for tract in self:
                    writer.writerow(scrub_row(tract.to_list(attributes)))
            os.replace(tmp, fp)
        except BaseException:
            if tmp.exists():
                os.remove(tmp)
            raise
        return None'''

BENIGN = [
    ("benign_csv_via_tempfile_and_replace", ["C19"], [
        ("pytrs/parser/containers/containers.py", _CSV_OLD, _CSV_TEMPFILE)]),
    ("benign_tractwriter_path_open_and_flush", ["C19"], [
        ("pytrs/tractwriter/tractwriter.py",
         '        self.file = open(self.fp, mode=self.mode, newline="")',
         '        self.file = self.fp.open(mode=self.mode, newline="")'),
        ("pytrs/tractwriter/tractwriter.py",
         "            self.writer.writerow(row)\n            written += 1",
         "            self.writer.writerow(row)\n            self.file.flush()\n"
         "            written += 1"),
    ]),
    ("benign_exists_via_os_path", ["C19"], [
        ("pytrs/parser/containers/containers.py",
         '        if fp.exists() and mode == "a":\n            headers = False',
         '        import os\n        if os.path.isfile(fp) and mode == "a":\n'
         '            headers = False'),
    ]),
    ("benign_tract_flags_reordered", ["C14", "C13", "C15"], [
        # dup_qq is now reported before dup_lot (order of a flag list is not
        # part of any property)
        ("pytrs/parser/tract/tract_parse.py",
         "        dup_lots = find_duplicates(self.lots)\n"
         "        dup_qqs = find_duplicates(self.qqs)\n\n        if dup_lots:",
         "        dup_lots = find_duplicates(self.lots)\n"
         "        dup_qqs = find_duplicates(self.qqs)\n\n"
         "        if dup_qqs:\n"
         "            flag = f\"dup_qq<{','.join(dup_qqs)}>\"\n"
         "            self.w_flags.append(flag)\n"
         "            self.w_flag_lines.append((flag, flag))\n"
         "            dup_qqs = []\n\n        if dup_lots:"),
    ]),
    ("benign_cache_cleared_per_description", ["C15", "C14"], [
        ("pytrs/parser/plssdesc/plss_parse.py",
         "        # These inform subordinate Tract objects.\n"
         "        self.parse_qq = parse_qq",
         "        from ..trs import TRS as _TRS\n        _TRS._clear_cache()\n"
         "        # These inform subordinate Tract objects.\n"
         "        self.parse_qq = parse_qq"),
    ]),
    ("benign_cache_entry_is_a_private_copy", ["C15"], [
        ("pytrs/parser/trs/trs.py",
         "        dct = TRS.trs_to_dict(trs)\n        if TRS._USE_CACHE:\n"
         "            TRS.__CACHE[trs] = dct\n        return dct",
         "        dct = dict(TRS.trs_to_dict(trs))\n"
         "        if TRS._USE_CACHE and isinstance(trs, str):\n"
         "            TRS.__CACHE[trs] = dct\n        return dct"),
    ]),
    ("benign_decompile_other_order_and_explicit_true", ["C13"], [
        ("pytrs/parser/config/config.py",
         "        for att in Config._CONFIG_ATTRIBUTES:\n"
         "            w = attrib_and_val_to_str(att, getattr(self, att))",
         "        for att in reversed(Config._CONFIG_ATTRIBUTES):\n"
         "            w = attrib_and_val_to_str(att, getattr(self, att))"),
        ("pytrs/parser/config/config.py",
         "            # attribute name (defaults to True if specified).\n"
         "            return attribute",
         "            # attribute name (defaults to True if specified).\n"
         "            return f\"{attribute}.True\""),
    ]),
    ("benign_handed_down_config_carries_more", ["C13", "C14"], [
        ("pytrs/parser/plssdesc/plssdesc.py",
         "        handed_down_config = handed_down_config.decompile_to_text()\n",
         "        handed_down_config.sec_within = sec_within\n"
         "        handed_down_config.segment = segment\n"
         "        handed_down_config = handed_down_config.decompile_to_text()\n"),
    ]),
]
