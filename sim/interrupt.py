"""
Asynchronous-interruption seam: a ``sys.settrace`` function that counts
``line`` events in frames whose code lives under ``<repo>/pytrs`` and raises
``SimInterrupt`` (a BaseException, like KeyboardInterrupt) *inside* the traced
frame at event number ``at``.  Deterministic: the count depends only on the
code path, which the plan fixes.

Not every line event is a usable injection point.  CPython 3.12 reports a
``line`` event again when a backward jump lands on the line it started from
(a one-line ``for`` loop, the loop of an inlined comprehension), and an
exception raised by the trace function at *that* event is not routed through
the handlers that protect the line -- an enclosing ``with`` block does not
run ``__exit__`` (reproduced with ten lines of plain Python and a real file;
a KeyboardInterrupt delivered by a signal does not behave so).  An interrupt
that would fire there is therefore deferred to the next event that is not
such a repeat: a tracing artifact must not be taken for behaviour of the
code under test.
"""

import os
import sys


class SimInterrupt(BaseException):
    pass


class Interrupter:
    def __init__(self, repo, at):
        self.prefix = os.path.join(os.path.realpath(repo), "pytrs") + os.sep
        self.at = at
        self.count = 0
        self.fired = False
        self.where = None
        self.frame_line = None
        self.frame_func = None
        self.frame_stack = []
        self.frame_positions = []
        self.deferred = 0
        self._last_line = {}

    def _local(self, frame, event, arg):
        if event == "line":
            self.count += 1
            key = id(frame)
            repeat = self._last_line.get(key) == frame.f_lineno
            self._last_line[key] = frame.f_lineno
            if self.at > 0 and self.count >= self.at and not self.fired \
                    and repeat:
                self.deferred += 1
            elif self.at > 0 and self.count >= self.at and not self.fired:
                self.fired = True
                self.where = (os.path.basename(frame.f_code.co_filename),
                              frame.f_lineno)
                self.frame_func = frame.f_code.co_name
                self.frame_stack = []
                self.frame_positions = []
                f = frame
                while f is not None and len(self.frame_stack) < 40:
                    # frames of the code under test only (the harness and
                    # multiprocessing have their own __init__ frames)
                    if f.f_code.co_filename.startswith(self.prefix):
                        self.frame_stack.append(f.f_code.co_name)
                        self.frame_positions.append(
                            (f.f_code.co_filename, f.f_lineno))
                    f = f.f_back
                import linecache
                self.frame_line = linecache.getline(
                    frame.f_code.co_filename, frame.f_lineno)
                raise SimInterrupt()
        elif event == "return":
            self._last_line.pop(id(frame), None)
        return self._local

    def _global(self, frame, event, arg):
        if self.fired:
            return None
        fn = frame.f_code.co_filename
        if fn.startswith(self.prefix):
            return self._local
        return None

    def __enter__(self):
        sys.settrace(self._global)
        return self

    def __exit__(self, *exc):
        sys.settrace(None)
        return False


class LineCounter(Interrupter):
    """Same tracer, never fires: measures how many line events an op has."""

    def __init__(self, repo):
        super().__init__(repo, at=-1)


_AST_CACHE = {}


def in_unprotectable_position(filename, lineno):
    """
    True when ``lineno`` of ``filename`` is a place where no Python program
    can protect a resource against an asynchronous exception: the header of a
    ``with`` statement, the ``try:`` line itself (the statement before it has
    acquired the resource, the handler is not armed yet), or any line of a
    ``finally:`` / ``except`` clause (the cleanup code is what gets cut).
    """
    import ast
    if filename not in _AST_CACHE:
        try:
            with open(filename, encoding="utf-8") as fh:
                _AST_CACHE[filename] = ast.parse(fh.read())
        except Exception:  # noqa - unknown source: be conservative
            _AST_CACHE[filename] = None
    tree = _AST_CACHE[filename]
    if tree is None:
        return True

    def spans(stmts):
        return any(st.lineno <= lineno <= getattr(st, "end_lineno", st.lineno)
                   for st in stmts)

    for node in ast.walk(tree):
        if isinstance(node, (ast.With, ast.AsyncWith)):
            if node.lineno <= lineno < node.body[0].lineno:
                return True
        elif isinstance(node, ast.Try):
            if node.lineno == lineno:
                return True
            if spans(node.finalbody):
                return True
            for h in node.handlers:
                if h.lineno <= lineno <= getattr(h, "end_lineno", h.lineno):
                    return True
    return False
