"""
Asynchronous-interruption seam: a ``sys.settrace`` function that counts
``line`` events in frames whose code lives under ``<repo>/pytrs`` and raises
``SimInterrupt`` (a BaseException, like KeyboardInterrupt) *inside* the traced
frame at event number ``at``.  Deterministic: the count depends only on the
code path, which the plan fixes.
"""

import os
import sys


class SimInterrupt(BaseException):
    pass


class Interrupter:
    def __init__(self, repo, at):
        self.prefix = os.path.join(os.path.realpath(repo), "pytrs") + os.sep
        self.at = at
        self.count = 0
        self.fired = False
        self.where = None
        self.frame_line = None
        self.frame_func = None
        self.frame_stack = []

    def _local(self, frame, event, arg):
        if event == "line":
            self.count += 1
            if self.count == self.at and not self.fired:
                self.fired = True
                self.where = (os.path.basename(frame.f_code.co_filename),
                              frame.f_lineno)
                self.frame_func = frame.f_code.co_name
                self.frame_stack = []
                f = frame
                while f is not None and len(self.frame_stack) < 40:
                    # frames of the code under test only (the harness and
                    # multiprocessing have their own __init__ frames)
                    if f.f_code.co_filename.startswith(self.prefix):
                        self.frame_stack.append(f.f_code.co_name)
                    f = f.f_back
                import linecache
                self.frame_line = linecache.getline(
                    frame.f_code.co_filename, frame.f_lineno)
                raise SimInterrupt()
        return self._local

    def _global(self, frame, event, arg):
        if self.fired:
            return None
        fn = frame.f_code.co_filename
        if fn.startswith(self.prefix):
            return self._local
        return None

    def __enter__(self):
        sys.settrace(self._global)
        return self

    def __exit__(self, *exc):
        sys.settrace(None)
        return False


class LineCounter(Interrupter):
    """Same tracer, never fires: measures how many line events an op has."""

    def __init__(self, repo):
        super().__init__(repo, at=-1)
