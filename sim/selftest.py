"""
Self-tests of the harness (DESIGN 2.9).

  determinism [N]      per-run event-log digests must agree across: two
                       executions, 1 vs 16 workers, PYTHONHASHSEED 0 vs another
                       value, and a fresh interpreter.
  sensitivity [PROP]   single-hunk mutants of pyTRS in a scratch copy (outside
                       /repo and /verif, removed afterwards): each must be
                       caught by its property's check within the quick budget.
  simfs [N]            fault-free workloads executed on the simulated FS and
                       on a real temporary directory: byte-identical files.
"""

import json
import os
import shutil
import subprocess
import sys
import tempfile
import time

from . import engine

PY = sys.executable
CHECK = os.path.join(engine.VERIF, "check.py")


# --------------------------------------------------------------------------
# determinism
# --------------------------------------------------------------------------

def _digests(prop, n, workers, hashseed, seed=0):
    env = dict(os.environ)
    env["PYTHONHASHSEED"] = str(hashseed)
    env["VERIF_NO_REEXEC"] = "1"
    env["VERIF_SEED"] = str(seed)
    p = subprocess.run([PY, CHECK, "digest", prop, str(n), "--workers",
                        str(workers)], env=env, capture_output=True, text=True,
                       timeout=3600)
    if p.returncode != 0:
        raise RuntimeError(f"digest {prop} failed: {p.stdout[-800:]} {p.stderr[-800:]}")
    return json.loads(p.stdout.strip().splitlines()[-1])


def determinism(n):
    bad = 0
    for prop in sorted(engine.MACHINES):
        k = n if prop != "C19" else max(8, n // 10)
        t0 = time.monotonic()
        a = _digests(prop, k, 16, 0)
        b = _digests(prop, k, 16, 0)
        c = _digests(prop, k, 3, 4242)
        d = _digests(prop, min(k, 60), 1, 77)
        diff = [i for i in a if a[i] != b.get(i) or a[i] != c.get(i)]
        diff += [i for i in d if d[i] != a.get(i)]
        other_seed = _digests(prop, min(k, 40), 16, 0, seed=1)
        same_as_other = sum(1 for i in other_seed if other_seed[i] == a.get(i))
        print(f"determinism {prop}: {k} runs x (16w/hash0 twice, 3w/hash4242, "
              f"1w/hash77 on {len(d)}) -> {len(diff)} divergent; seed "
              f"sensitivity: {len(other_seed) - same_as_other}/"
              f"{len(other_seed)} runs differ under VERIF_SEED=1 "
              f"[{time.monotonic() - t0:.1f}s]")
        if diff:
            print("  DIVERGENT RUN INDICES:", sorted(set(diff), key=int)[:20])
            bad += 1
        if same_as_other == len(other_seed):
            print("  VERIF_SEED has no influence -- seed plumbing broken")
            bad += 1
    return 1 if bad else 0


# --------------------------------------------------------------------------
# sensitivity
# --------------------------------------------------------------------------

# (name, property, file, old, new)
MUTANTS = [
    ("c14_alias_parent_flags", "C14", "pytrs/parser/tract/tract_parse.py",
     "self.w_flags = parent.w_flags.copy()", "self.w_flags = parent.w_flags"),
    ("c14_ppdesc_outside_commit", "C14", "pytrs/parser/plssdesc/plssdesc.py",
     "            self.pp_desc = parser.text\n\n        return tracts",
     "        self.pp_desc = parser.text\n\n        return tracts"),
    ("c14_noncommit_commits_when_parse_qq", "C14",
     "pytrs/parser/plssdesc/plssdesc.py",
     "        tracts = parser.tracts  # a TractList object\n        if commit:",
     "        tracts = parser.tracts  # a TractList object\n        if commit or (parse_qq and sec_within):"),
    ("c14_parse_complete_outside_commit", "C14", "pytrs/parser/tract/tract.py",
     "        if commit:\n            self.parse_complete = True\n",
     "        self.parse_complete = True\n        if commit:\n"),
    ("c14_forget_own_flags", "C14", "pytrs/parser/tract/tract.py",
     "            self._own_parse_flags = parser.own_flags\n", ""),
    ("c14_noncommit_leaks_setting", "C14", "pytrs/parser/plssdesc/plssdesc.py",
     "        if clean_qq is None:\n            clean_qq = self.clean_qq\n",
     "        if clean_qq is None:\n            clean_qq = self.clean_qq\n"
     "        self.clean_qq = clean_qq\n"),
    ("c14_flags_not_wiped", "C14", "pytrs/parser/plssdesc/plssdesc.py",
     "            for attribute in parser.UNPACKABLES:\n                setattr(self, attribute, getattr(parser, attribute))\n            self.tracts = tracts",
     "            for attribute in parser.UNPACKABLES:\n                if attribute.endswith('flags'):\n                    getattr(self, attribute).extend(getattr(parser, attribute))\n                    continue\n                setattr(self, attribute, getattr(parser, attribute))\n            self.tracts = tracts"),

    ("c15_hand_out_cached_dict", "C15", "pytrs/parser/trs/trs.py",
     "        if isinstance(trs, TRS):\n            trs = trs.trs\n        dct = {",
     "        if isinstance(trs, TRS):\n            trs = trs.trs\n        if isinstance(trs, str) and trs in TRS._TRS__CACHE:\n            return TRS._TRS__CACHE[trs]\n        dct = {"),
    ("c15_cache_key_too_coarse", "C15", "pytrs/parser/trs/trs.py",
     "        self.__trs_dict = TRS.__CACHE.get(new_trs, None)",
     "        self.__trs_dict = TRS.__CACHE.get(str(new_trs)[:8], None)"),
    ("c13_masterconfig_fallback_frozen_in_parse", "C13",
     "pytrs/parser/plssdesc/plssdesc.py",
     "        if not default_ns:\n            default_ns = self.default_ns\n",
     "        if not default_ns:\n            default_ns = self.default_ns\n"
     "        if default_ns is None:\n            default_ns = 'n'\n"),
    ("c15_cache_off_returns_none", "C15", "pytrs/parser/trs/trs.py",
     "        if TRS._USE_CACHE:\n            TRS.__CACHE[trs] = dct\n        return dct",
     "        if TRS._USE_CACHE:\n            TRS.__CACHE[trs] = dct\n            return dct"),
    ("c15_shared_mutable_default", "C15",
     "pytrs/parser/plssdesc/plss_preprocess.py",
     "    sec_mo_list = multisec_regex.finditer(text)\n    sec_list = []",
     "    sec_mo_list = multisec_regex.finditer(text)\n    sec_list = _SEC_ACC"),
    ("c13_freeze_default_at_import", "C13", "pytrs/parser/trs/trs.py",
     "            default_ns=None,\n            default_ew=None,\n            ocr_scrub=False):\n        \"\"\"\n        Build a Twp/Rge/Sec in the standardized format from component",
     "            default_ns=MasterConfig.default_ns,\n            default_ew=None,\n            ocr_scrub=False):\n        \"\"\"\n        Build a Twp/Rge/Sec in the standardized format from component"),
    ("c15_cache_filled_before_complete", "C15", "pytrs/parser/trs/trs.py",
     "        dct = TRS.trs_to_dict(trs)\n        if TRS._USE_CACHE:\n            TRS.__CACHE[trs] = dct\n        return dct",
     "        dct = {'trs': trs}\n        if TRS._USE_CACHE:\n            TRS.__CACHE[trs] = dct\n        dct.update(TRS.trs_to_dict(trs))\n        return dct"),

    ("c13_segment_reads_attribute", "C13", "pytrs/parser/plssdesc/plssdesc.py",
     '            "segment": segment,', '            "segment": self.segment,'),
    ("c13_tract_break_halves_attr", "C13", "pytrs/parser/tract/tract.py",
     "            break_halves=break_halves,\n            parent=self",
     "            break_halves=self.break_halves,\n            parent=self"),
    ("c13_setter_skips_sec_within", "C13", "pytrs/parser/plssdesc/plssdesc.py",
     "        for attrib in Config._PLSSDESC_ATTRIBUTES:\n            value = getattr(new_config, attrib)\n            if value is not None:",
     "        for attrib in Config._PLSSDESC_ATTRIBUTES:\n            value = getattr(new_config, attrib)\n            if value is not None and attrib != 'sec_within':"),
    ("c13_ocr_scrub_kw_ignored", "C13", "pytrs/parser/plssdesc/plssdesc.py",
     "        if ocr_scrub is None:\n            ocr_scrub = self.ocr_scrub\n\n        if sec_within is None:",
     "        ocr_scrub = self.ocr_scrub\n\n        if sec_within is None:"),
    ("c13_handed_down_drops_suppress", "C13", "pytrs/parser/plssdesc/plssdesc.py",
     "        handed_down_config.suppress_lot_divs = self.suppress_lot_divs\n", ""),
    ("c13_decompile_drops_false", "C13", "pytrs/parser/config/config.py",
     '            return f"{attribute}.{value}"\n    elif attribute in [\'default_ns\'',
     '            return ""\n    elif attribute in [\'default_ns\''),
    ("c13_unknown_name_ignored", "C13", "pytrs/parser/config/config.py",
     '        if attribute not in self._CONFIG_ATTRIBUTES:\n            raise ValueError(f"Illegal config attribute {attribute!r}")',
     '        if attribute not in self._CONFIG_ATTRIBUTES:\n            return None'),
    ("c13_masterconfig_frozen_in_preprocess", "C13",
     "pytrs/parser/plssdesc/plss_preprocess.py",
     "    if default_ns is None:\n        default_ns = MasterConfig.default_ns\n    if default_ew is None:\n        default_ew = MasterConfig.default_ew\n\n    # Look for Twp/Rge in original text",
     "    if default_ns is None:\n        default_ns = 'n'\n    if default_ew is None:\n        default_ew = MasterConfig.default_ew\n\n    # Look for Twp/Rge in original text"),

    ("c19_reopen_truncates", "C19", "pytrs/tractwriter/tractwriter.py",
     '        self.mode = "a"\n        return None', '        return None'),
    ("c19_header_decision_inverted", "C19",
     "pytrs/parser/containers/containers.py",
     '        if fp.exists() and mode == "a":\n            headers = False',
     '        if fp.exists() and mode == "w":\n            headers = False'),
    ("c19_swallow_oserror", "C19", "pytrs/tractwriter/tractwriter.py",
     "            self.writer.writerow(row)\n            written += 1",
     "            try:\n                self.writer.writerow(row)\n            except OSError:\n                pass\n            written += 1"),
    ("c19_skip_rows_that_fail_scrub", "C19",
     "pytrs/parser/containers/containers.py",
     "                row = scrub_row(row)\n                writer.writerow(row)",
     "                try:\n                    row = scrub_row(row)\n                except TypeError:\n                    continue\n                if any(isinstance(c, str) and '\\n' in c for c in row):\n                    continue\n                writer.writerow(row)"),
    ("c19_na_placeholder_changed", "C19", "pytrs/parser/tract/tract.py",
     '        return [getattr(self, att, f"{att}: n/a") for att in attributes]',
     '        return [getattr(self, att, None) for att in attributes]'),
    ("c19_close_swallows", "C19", "pytrs/tractwriter/tractwriter.py",
     "        self.file.close()\n        self.file = None",
     "        try:\n            self.file.close()\n        except OSError:\n            pass\n        self.file = None"),
    ("c19_tw_header_on_append", "C19", "pytrs/tractwriter/tractwriter.py",
     '        if self.fp.exists() and mode == "a":\n            write_headers = False',
     '        if self.fp.exists() and mode == "a" and self.fp.stat().st_size > 64:\n            write_headers = False'),
    ("c19_dict_cell_dropped", "C19", "pytrs/tractwriter/tractwriter.py",
     "                elem = ','.join([f\"{k}:{v}\" for k, v in elem.items()])\n            elif isinstance(elem, (list, tuple)):\n                flat",
     "                elem = ','.join([f\"{k}\" for k, v in elem.items()])\n            elif isinstance(elem, (list, tuple)):\n                flat"),
]

EXTRA_PATCH = {
    "c14_flags_not_wiped": (
        "pytrs/parser/plssdesc/plssdesc.py",
        "            self.w_flags = []\n            self.e_flags = []\n            self.w_flag_lines = []\n            self.e_flag_lines = []\n",
        ""),
    "c15_cache_key_too_coarse": (
        "pytrs/parser/trs/trs.py",
        "            TRS.__CACHE[trs] = dct", "            TRS.__CACHE[str(trs)[:8]] = dct"),
    "c15_shared_mutable_default": (
        "pytrs/parser/plssdesc/plss_preprocess.py",
        "def find_sec(text):", "_SEC_ACC = []\n\n\ndef find_sec(text):"),
}

def soundness(only=None):
    """No check may raise an alarm on a behaviour-preserving refactoring."""
    from .benign import BENIGN
    bad = 0
    for name, props, patches in BENIGN:
        if only and only != name and only not in props:
            continue
        d = _scratch_copy()
        out = tempfile.mkdtemp(prefix="pytrs-ben-out-", dir="/tmp")
        try:
            ok = all(_apply(d, f, o, n) for f, o, n in patches)
            if not ok:
                print(f"  {name}: PATCH-DOES-NOT-APPLY")
                bad += 1
                continue
            t = subprocess.run(
                [PY, "-m", "pytest", "-q", "-x", "-p", "no:cacheprovider",
                 os.path.join(d, "tests")], cwd=d, capture_output=True,
                text=True, timeout=900, env=dict(os.environ, PYTHONPATH=d))
            tests = "pass" if t.returncode == 0 else "FAIL"
            for prop in props:
                env = dict(os.environ, VERIF_REPO=d, VERIF_OUT=out,
                           VERIF_MIN_BUDGET="40")
                t0 = time.monotonic()
                p = subprocess.run(
                    [PY, CHECK, "run", prop, "--runs", str(QUICK_RUNS[prop])],
                    env=env, capture_output=True, text=True, timeout=3600)
                dt = time.monotonic() - t0
                silent = p.returncode == 0 and "VIOLATION" not in p.stdout
                verdict = "silent" if silent else \
                    "FALSE-ALARM(exit %d)" % p.returncode
                print(f"  {name:48s} {prop} {verdict} {dt:6.1f}s "
                      f"tests={tests}", flush=True)
                if not silent:
                    bad += 1
                    print(p.stdout[-2500:], p.stderr[-500:])
        finally:
            shutil.rmtree(d, ignore_errors=True)
            shutil.rmtree(out, ignore_errors=True)
    print(f"soundness: {bad} false alarms / problems")
    return 1 if bad else 0


QUICK_RUNS = {"C13": 5000, "C14": 10000, "C15": 6000, "C19": 1200}


def _scratch_copy():
    d = tempfile.mkdtemp(prefix="pytrs-mut-", dir="/tmp")
    shutil.copytree(os.path.join(engine.REPO, "pytrs"), os.path.join(d, "pytrs"))
    for extra in ("tests", "pyproject.toml"):
        src = os.path.join(engine.REPO, extra)
        if os.path.isdir(src):
            shutil.copytree(src, os.path.join(d, extra))
        elif os.path.exists(src):
            shutil.copy(src, os.path.join(d, extra))
    return d


def _apply(root, file, old, new):
    p = os.path.join(root, file)
    s = open(p).read()
    if old not in s:
        return False
    open(p, "w").write(s.replace(old, new, 1))
    return True


def sensitivity(only=None, run_tests=True):
    results = []
    for name, prop, file, old, new in MUTANTS:
        if only and only not in (prop, name):
            continue
        d = _scratch_copy()
        out = tempfile.mkdtemp(prefix="pytrs-mut-out-", dir="/tmp")
        try:
            ok = _apply(d, file, old, new)
            if ok and name in EXTRA_PATCH:
                ok = _apply(d, *EXTRA_PATCH[name])
            if not ok:
                results.append((name, prop, "PATCH-DOES-NOT-APPLY", 0, None))
                continue
            tests = None
            if run_tests:
                t = subprocess.run(
                    [PY, "-m", "pytest", "-q", "-x", "-p", "no:cacheprovider",
                     os.path.join(d, "tests")], cwd=d, capture_output=True,
                    text=True, timeout=900,
                    env=dict(os.environ, PYTHONPATH=d))
                tests = "pass" if t.returncode == 0 else "FAIL"
            env = dict(os.environ)
            env["VERIF_REPO"] = d
            env["VERIF_OUT"] = out
            env["VERIF_MIN_BUDGET"] = "40"
            t0 = time.monotonic()
            p = subprocess.run(
                [PY, CHECK, "run", prop, "--runs", str(QUICK_RUNS[prop])],
                env=env, capture_output=True, text=True, timeout=3600)
            dt = time.monotonic() - t0
            viol = [ln for ln in p.stdout.splitlines()
                    if ln.startswith("VIOLATION")]
            status = "caught" if p.returncode == 1 and viol else \
                f"MISSED(exit {p.returncode})"
            cls = [ln.strip() for ln in p.stdout.splitlines()
                   if ln.strip().startswith("failure class")][:3]
            results.append((name, prop, status, dt, tests))
            print(f"  {name:42s} {prop} {status:14s} {dt:6.1f}s tests={tests} "
                  f"{cls[:1]}", flush=True)
            if status != "caught":
                print(p.stdout[-1500:], p.stderr[-800:])
        finally:
            shutil.rmtree(d, ignore_errors=True)
            shutil.rmtree(out, ignore_errors=True)
    missed = [r for r in results if r[2] != "caught"]
    print(f"sensitivity: {len(results) - len(missed)}/{len(results)} mutants "
          f"caught; missed: {[r[0] for r in missed]}")
    return 1 if missed else 0


# --------------------------------------------------------------------------
# simfs model validation
# --------------------------------------------------------------------------

def simfs_validation(n):
    import contextlib
    from .rng import rng_for
    from .machines import csvfs
    pytrs = engine.ensure_repo_on_path()

    class RealFS:
        """Same interface as SimFS, backed by a real directory."""

        def __init__(self, root):
            self.root = root
            self.fault = None
            self.fired = None
            self.trace = []
            self.op_tag = None

        @property
        def files(self):
            out = {}
            for f in sorted(os.listdir(self.root)):
                with open(os.path.join(self.root, f), "rb") as fh:
                    out[os.path.join(self.root, f)] = fh.read()
            return out

        @contextlib.contextmanager
        def installed(self):
            yield self

        def repair(self, path):
            return "n/a"

        def user_delete(self, path):
            if os.path.exists(path):
                os.remove(path)

    def one(i):
        plan = csvfs.gen_plan(rng_for(0, "C19", 100000 + i))
        srcs = csvfs.build_sources(pytrs, plan["sources"])
        sim = csvfs.run_workload(plan, srcs)
        root = tempfile.mkdtemp(prefix="pytrs-realfs-", dir="/tmp")
        try:
            rplan = json.loads(json.dumps(plan).replace("/simfs/", root + "/"))
            real = csvfs.run_workload(rplan, srcs,
                                      fs_factory=lambda *a: RealFS(root))
            simf = {os.path.basename(k): v for k, v in sim["final"].items()}
            realf = {os.path.basename(k): v for k, v in real["final"].items()}
            probs = [p["oracle"] for p in sim["problems"] + real["problems"]]
            return simf == realf, probs, len(simf)
        finally:
            shutil.rmtree(root, ignore_errors=True)

    bad = 0
    files = 0
    for i in range(n):
        same, probs, nf = engine.fork_call(one, (i,), timeout=120)
        files += nf
        if not same or probs:
            bad += 1
            print(f"  workload {i}: identical={same} problems={probs}")
    print(f"simfs validation: {n} fault-free workloads on SimFS and on a real "
          f"directory, {files} files compared, {bad} disagreements")
    return 1 if bad else 0


def main(which, rest):
    if which == "determinism":
        return determinism(int(rest[0]) if rest else 300)
    if which == "sensitivity":
        only = rest[0] if rest else None
        return sensitivity(only)
    if which == "soundness":
        return soundness(rest[0] if rest else None)
    if which == "simfs":
        return simfs_validation(int(rest[0]) if rest else 200)
    print("unknown selftest", which)
    return 2
