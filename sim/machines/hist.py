"""
C14 -- `hist`: single-object histories against their normal form.

A run is a history H of operations on ONE PLSSDesc or ONE Tract.  Oracles:

1. purity      -- full snapshot (settings, results, identity of every element
                  of .tracts, full snapshot of every subordinate tract) is
                  identical before and after every commit=False call and
                  every read-only call;
2. normal-form -- results-only snapshot after H equals that of a fresh object
                  after N(H), each executed in its own pristine fork;
3. ret-twin    -- what a commit=False parse at step k returns equals what the
                  same call returns when appended to N(H[:k]) on a fresh
                  object.

N(H) is computed after H has run: a call that raised in H is never erased and
never counts as "the last committed parse".  The library itself on the shorter
history in a clean process is the reference model (DESIGN 2.5).
"""

import copy

from .. import corpus, opgen
from ..engine import fork_call, ensure_repo_on_path
from ..snapshot import Ctx, enc, compare, path_class, digest, excerpt

PROP = "C14"
NAME = "hist"
LEVEL = "exploration"

READS_DESC = (
    "tracts_to_dict", "tracts_to_list", "tracts_to_str", "iter_to_dict",
    "iter_to_list", "quick_desc", "quick_desc_short", "pretty_desc",
    "list_trs", "list_trs_nodup", "group_by", "group_by_sorted",
    "group_by_nested", "deduce_layout", "repr", "str", "flags", "getitem",
    "copy_tracts", "to_standard_list", "require_colon",
    "group_by_sort1", "group_by_nested_sort1", "iterate", "copy_then_edit",
    "std_list_clear", "filter_result_edit", "concat",
    "group_unpack", "group_tracts_by", "snapshot_inside", "export_all",
    "csv_devnull", "writer_devnull",
)
READS_TRACT = (
    "to_dict", "to_list", "quick_desc", "quick_desc_short", "repr", "str",
    "lots_qqs", "ilots", "flags", "pretty_twprge", "trs_is_error",
    "export_all", "writer_devnull",
)
SORT_KEYS = ("i", "i,s,r,t", "s.reverse,r.ew,t.ns", "t.num,r.num", "s",
             "i.rev", "r.we,t.sn", "zz")
FILTER_PREDS = ("sec_even", "has_lots", "desc_short", "has_flags", "all",
                "none")
# predicates / methods whose answer depends on tract-level parse results
DEPENDENT_PREDS = ("has_lots", "has_flags")
DEPENDENT_DUP_METHODS = ("lots_qqs", "desc")

ALL_KINDS = ("set_config", "parse", "parse_nc", "parse_tracts",
             "config_tracts", "preprocess", "sort", "filter", "filter_errors",
             "filter_duplicates", "read", "tract_parse", "tracts_edit")


# --------------------------------------------------------------------------
# plan generation
# --------------------------------------------------------------------------

def gen_plan(rng):
    cls = "PLSSDesc" if rng.random() < 0.7 else "Tract"
    kinds = [k for k in ALL_KINDS if rng.random() < 0.7]
    if cls == "Tract":
        kinds = [k for k in kinds if k in
                 ("set_config", "parse", "parse_nc", "preprocess", "read")]
    # (tract_parse / tracts_edit exist for PLSSDesc subjects only)
    if not kinds:
        kinds = ["parse", "parse_nc"]
    mode = rng.choice(("free", "repeat", "noncommit", "free", "repeat",
                       "noncommit", "fail_retry"))
    ops = []
    if cls == "PLSSDesc":
        kw = {}
        r = rng.random()
        if r < 0.55:
            kw["parse_qq"] = True
        elif r < 0.65:
            kw["parse_qq"] = False
        if rng.random() < 0.15:
            kw["wait_to_parse"] = True
        if rng.random() < 0.08:
            kw["layout"] = rng.choice(opgen.LAYOUTS)
        r_txt = rng.random()
        if r_txt < 0.15:
            text_ = rng.choice(sorted(corpus.WITNESS.values()))
        elif r_txt < 0.19:
            a_ = rng.randint(1, 14)
            text_ = (f"T{rng.randint(1, 160)}N-R{rng.randint(1, 105)}W "
                     f"Sections {a_} - {a_ + rng.randint(15, 21)}: "
                     + rng.choice(("N/2NE/4, NE/4", "Lots 1, 1",
                                   "Lots 3 - 1, W/2", "Lot 1(38.29), Lot 1(39.00)")))
        else:
            text_ = corpus.gen_desc(rng)
        ops.append({"op": "create", "cls": "PLSSDesc",
                    "text": text_,
                    "config": opgen.gen_config_text(rng, hi=3),
                    "kw": kw})
        pkw_names = opgen.PLSS_PARSE_KW
    else:
        kw = {}
        r = rng.random()
        if r < 0.6:
            kw["parse_qq"] = True
        elif r < 0.7:
            kw["parse_qq"] = False
        ops.append({"op": "create", "cls": "Tract",
                    "text": (rng.choice(sorted(corpus.TRACT_WITNESS.values()))
                             + rng.choice(("", ", Lots 1, 1", ", NE/4, NE/4"))
                             if rng.random() < 0.35 else
                             corpus.gen_block(rng, want_flags=rng.random() < 0.5)),
                    "trs": corpus.gen_trs_string(rng),
                    "config": opgen.gen_config_text(
                        rng, names=opgen.TRACT_LEVEL + ("default_ns", "ocr_scrub"), hi=2),
                    "kw": kw})
        pkw_names = opgen.TRACT_PARSE_KW
    n = rng.randint(1, 12)
    for _ in range(n):
        ops.append(_gen_op(rng, cls, rng.choice(kinds), pkw_names))
    if mode == "repeat":
        # force a back-to-back repeat of a committed call
        r_rep = rng.random()
        if cls == "PLSSDesc" and r_rep < 0.5:
            rep = {"op": "parse_tracts", "config": None, "kw": {}}
        elif cls == "PLSSDesc" and r_rep < 0.7:
            rep = {"op": "tract_parse", "i": rng.randrange(6), "commit": True,
                   "kw": {}}
        else:
            rep = {"op": "parse", "commit": True, "kw": {}}
        pos = rng.randint(1, len(ops))
        ops[pos:pos] = [copy.deepcopy(rep), copy.deepcopy(rep)]
    elif mode == "noncommit":
        # a non-committed call with an override that changes the result
        names = opgen.TRACT_PARSE_KW if cls == "Tract" else (
            "parse_qq", "layout", "default_ns", "default_ew", "segment",
            "sec_colon_required", "clean_qq", "qq_depth")
        kw = opgen.gen_kw(rng, names, lo=1, hi=2)
        if cls == "PLSSDesc" and "layout" in kw and rng.random() < 0.5:
            kw["layout"] = "copy_all"
        pos = rng.randint(1, len(ops))
        ops.insert(pos, {"op": "parse", "commit": False, "kw": kw})
    elif mode == "fail_retry":
        # a committed call that fails INSIDE the parser (the caller runs with
        # warnings turned into errors and the depths are inconsistent),
        # followed by the natural retry of the very same call without that:
        # the failed call is erasable, the retry must do all of its work
        kw = {"qq_depth_min": 3, "qq_depth_max": rng.choice((1, 2))}
        if rng.random() < 0.4:
            kw["clean_qq"] = True
        r_f = rng.random()
        if cls == "PLSSDesc" and r_f < 0.4:
            bad = {"op": "parse_tracts", "config": None, "kw": kw}
        elif cls == "PLSSDesc" and r_f < 0.6:
            bad = {"op": "tract_parse", "i": rng.randrange(6), "commit": True,
                   "kw": kw}
        else:
            if cls == "PLSSDesc":
                kw["parse_qq"] = True
            bad = {"op": "parse", "commit": True, "kw": kw}
        pos = rng.randint(1, len(ops))
        ops[pos:pos] = [dict(copy.deepcopy(bad), warn_error=True),
                        copy.deepcopy(bad)]
    return {"machine": NAME, "ops": ops[:16]}


def _gen_op(rng, cls, kind, pkw_names):
    tract_names = opgen.TRACT_LEVEL
    if kind == "set_config":
        names = opgen.ALL_SETTINGS if cls == "PLSSDesc" else \
            opgen.TRACT_LEVEL + ("default_ns", "default_ew", "ocr_scrub")
        return {"op": "set_config", "cfg_obj": rng.random() < 0.2,
                "config": opgen.gen_config_text(rng, names, lo=1, hi=3,
                                                none_ok=False)}
    if kind == "parse":
        return {"op": "parse", "commit": True,
                "kw": opgen.gen_kw(rng, pkw_names, 0, 3)}
    if kind == "parse_nc":
        return {"op": "parse", "commit": False,
                "use_ret": rng.random() < 0.3,
                "kw": opgen.gen_kw(rng, pkw_names, 0, 3)}
    if kind == "parse_tracts":
        cfg = None
        if rng.random() < 0.4:
            cfg = opgen.gen_config_text(rng, tract_names, lo=1, hi=2,
                                        none_ok=False)
        return {"op": "parse_tracts", "config": cfg,
                "cfg_obj": rng.random() < 0.3,
                "kw": opgen.gen_kw(rng, opgen.TRACT_PARSE_KW, 0, 2)}
    if kind == "config_tracts":
        return {"op": "config_tracts", "cfg_obj": rng.random() < 0.3,
                "config": opgen.gen_config_text(rng, tract_names, lo=1, hi=2,
                                                none_ok=False)}
    if kind == "preprocess":
        kw = {}
        if cls == "PLSSDesc":
            if rng.random() < 0.4:
                kw["default_ns"] = rng.choice(("n", "s"))
            if rng.random() < 0.3:
                kw["default_ew"] = rng.choice(("e", "w"))
            if rng.random() < 0.3:
                kw["ocr_scrub"] = rng.choice((True, False))
        else:
            if rng.random() < 0.5:
                kw["clean_qq"] = rng.choice((True, False))
        return {"op": "preprocess", "commit": rng.random() < 0.5, "kw": kw}
    if kind == "sort":
        return {"op": "sort", "key": rng.choice(SORT_KEYS)}
    if kind == "filter":
        return {"op": "filter", "pred": rng.choice(FILTER_PREDS),
                "drop": rng.random() < 0.5}
    if kind == "filter_errors":
        return {"op": "filter_errors", "drop": rng.random() < 0.5,
                "undef": rng.random() < 0.3}
    if kind == "filter_duplicates":
        return {"op": "filter_duplicates",
                "method": rng.choice(("instance", "lots_qqs", "desc", "trs")),
                "drop": rng.random() < 0.5}
    if kind == "tract_parse":
        return {"op": "tract_parse", "i": rng.randrange(6),
                "commit": rng.random() < 0.7,
                "kw": opgen.gen_kw(rng, opgen.TRACT_PARSE_KW, 0, 2)}
    if kind == "tracts_edit":
        return {"op": "tracts_edit",
                "how": rng.choice(("iadd", "imul", "insert", "setitem",
                                   "reverse", "pop_append"))}
    if kind == "read":
        pool = READS_DESC if cls == "PLSSDesc" else READS_TRACT
        return {"op": "read", "what": rng.choice(pool)}
    raise KeyError(kind)


# --------------------------------------------------------------------------
# execution (runs inside a fork of the pristine zygote)
# --------------------------------------------------------------------------

def is_pure(op):
    k = op["op"]
    if k == "parse" or k == "preprocess" or k == "tract_parse":
        return not op["commit"]
    if k == "read":
        return True
    if k in ("filter", "filter_errors", "filter_duplicates"):
        return not op["drop"]
    return False


def _pred(name):
    return {
        "sec_even": lambda t: (t.sec_num or 0) % 2 == 0,
        "has_lots": lambda t: bool(t.lots),
        "desc_short": lambda t: len(t.desc) < 12,
        "has_flags": lambda t: bool(t.w_flags),
        "all": lambda t: True,
        "none": lambda t: False,
    }[name]


ATTRS_FOR_READS = ("trs", "desc", "lots", "qqs", "w_flags", "lot_acres")


def _do_read(subj, what):
    if what == "tracts_to_dict":
        return subj.tracts_to_dict(*ATTRS_FOR_READS)
    if what == "tracts_to_list":
        return subj.tracts_to_list(list(ATTRS_FOR_READS))
    if what == "tracts_to_str":
        return subj.tracts_to_str("trs", "desc", "qqs") if len(subj.tracts) else None
    if what == "iter_to_dict":
        return list(subj.iter_to_dict("trs", "lots_qqs"))
    if what == "iter_to_list":
        return list(subj.iter_to_list("trs", "flags"))
    if what == "quick_desc":
        return subj.quick_desc()
    if what == "quick_desc_short":
        return subj.quick_desc_short()
    if what == "pretty_desc":
        return subj.pretty_desc()
    if what == "list_trs":
        return subj.list_trs()
    if what == "list_trs_nodup":
        return subj.list_trs(remove_duplicates=True)
    if what == "group_by":
        return subj.group_by("twprge")
    if what == "group_by_sorted":
        return subj.group_by(["twprge", "sec"], sort_key="s.rev")
    if what == "group_by_nested":
        return subj.group_by_nested(["twp", "rge"])
    if what == "group_by_sort1":
        return subj.group_by("twprge", sort_key="s.rev,i.rev")
    if what == "group_by_nested_sort1":
        return subj.group_by_nested("twp", sort_key="s.rev")
    if what == "iterate":
        return [t.trs for t in subj] + [len(subj.tracts)]
    if what == "copy_then_edit":
        c = subj.tracts.copy()
        c.custom_sort("s.rev")
        if len(c):
            c.pop()
        return len(c)
    if what == "std_list_clear":
        lst = subj.tracts.to_standard_list()
        lst.clear()
        return None
    if what == "filter_result_edit":
        f = subj.filter(lambda t: True)
        f.reverse()
        if len(f):
            f.pop(0)
        return len(f)
    if what == "concat":
        return len(subj.tracts + subj.tracts) + len(subj.tracts * 2)
    if what == "deduce_layout":
        return subj.deduce_layout()
    if what == "repr":
        return repr(subj)
    if what == "str":
        return str(subj)
    if what == "flags":
        return [subj.flags, subj.flag_lines, subj.desc_is_flawed]
    if what == "getitem":
        return subj[0] if len(subj.tracts) else None
    if what == "copy_tracts":
        return subj.tracts.copy()
    if what == "to_standard_list":
        return subj.tracts.to_standard_list()
    if what == "require_colon":
        return subj.require_colon
    if what == "to_dict":
        return subj.to_dict(*ATTRS_FOR_READS, "bogus_attr")
    if what == "to_list":
        return subj.to_list(list(ATTRS_FOR_READS))
    if what == "group_unpack":
        import pytrs
        g = subj.group_by("twprge")
        pytrs.sort_grouped_tracts(g, ["s.rev", "i"])
        return [pytrs.TractList.unpack_group(g),
                pytrs.TractList.unpack_group(g, sort_key="s")]
    if what == "group_tracts_by":
        import pytrs
        return pytrs.group_tracts_by([subj, subj.tracts], "sec",
                                     sort_key="t.sn")
    if what == "snapshot_inside":
        return subj.tracts.snapshot_inside()
    if what == "export_all":
        import pytrs
        names = list(pytrs.Tract.ATTRIBUTES)
        if isinstance(subj, pytrs.Tract):
            return [subj.to_list(names), subj.to_dict(*names)]
        return [subj.tracts_to_list(names), subj.tracts_to_dict(names)]
    if what == "csv_devnull":
        # an export reads the tracts: it must leave them as they are
        import os
        import pytrs
        subj.tracts_to_csv(list(pytrs.Tract.ATTRIBUTES), os.devnull, "w",
                           nice_headers=True)
        return None
    if what == "writer_devnull":
        import os
        import pytrs
        from pytrs.tractwriter import TractWriter
        w = TractWriter(list(pytrs.Tract.ATTRIBUTES), os.devnull, "w", uid=3)
        try:
            return w.write([subj, None if isinstance(subj, pytrs.Tract)
                            else list(subj.tracts)][:2 if not isinstance(
                                subj, pytrs.Tract) else 1])
        finally:
            w.close()
    if what == "lots_qqs":
        return subj.lots_qqs
    if what == "ilots":
        return subj.ilots
    if what == "pretty_twprge":
        return subj.pretty_twprge()
    if what == "trs_is_error":
        return [subj.trs_is_error(), subj.trs_is_undef()]
    raise KeyError(what)


def _use_returned(pytrs, ret):
    """A caller working with what a dry run returned (its own objects now)."""
    if isinstance(ret, pytrs.TractList):
        ret.parse_tracts(qq_depth=1)
        ret.config_tracts("clean_qq")
        ret.custom_sort("s.rev")
        if len(ret):
            t = ret.pop()
            t.w_flags.append("callers_own_note")
            t.lots.append("L99")
    elif isinstance(ret, list):
        ret.append("callers_own_note")


def _exec(pytrs, subj, op):
    k = op["op"]
    if k == "create":
        if op["cls"] == "PLSSDesc":
            return pytrs.PLSSDesc(op["text"], config=op["config"], **op["kw"])
        return pytrs.Tract(op["text"], trs=op["trs"], config=op["config"],
                           **op["kw"])
    def cfg_of(op_):
        c = op_["config"]
        if op_.get("cfg_obj") and isinstance(c, str):
            return pytrs.Config(c)
        return c

    if k == "set_config":
        subj.config = cfg_of(op)
        return None
    if op.get("warn_error"):
        # this one call runs the way a caller with `-W error` runs it
        import warnings
        with warnings.catch_warnings():
            warnings.simplefilter("error")
            return _exec(pytrs, subj, {k_: v_ for k_, v_ in op.items()
                                       if k_ != "warn_error"})
    if k == "tract_parse":
        n_ = len(subj.tracts)
        if not n_:
            return None
        return subj.tracts[op["i"] % n_].parse(commit=op["commit"], **op["kw"])
    if k == "tracts_edit":
        tl = subj.tracts
        how = op["how"]
        if how == "iadd" and len(tl) <= 12:
            tl += tl[:1]
        elif how == "imul" and len(tl) <= 6:
            tl *= 2
        elif how == "insert" and len(tl):
            tl.insert(0, tl[-1])
        elif how == "setitem" and len(tl) > 1:
            tl[0] = tl[1]
        elif how == "reverse":
            tl.reverse()
        elif how == "pop_append" and len(tl):
            tl.append(tl.pop(0))
        return len(tl)
    if k == "parse":
        ret = subj.parse(commit=op["commit"], **op["kw"])
        if op.get("use_ret") and not op["commit"]:
            snap = enc(ret)
            _use_returned(pytrs, ret)
            return {"__snapshot_before_use": snap}
        return ret
    if k == "parse_tracts":
        return subj.parse_tracts(config=cfg_of(op), **op["kw"])
    if k == "config_tracts":
        return subj.config_tracts(cfg_of(op))
    if k == "preprocess":
        return subj.preprocess(commit=op["commit"], **op["kw"])
    if k == "sort":
        return subj.sort_tracts(op["key"])
    if k == "filter":
        return subj.filter(_pred(op["pred"]), drop=op["drop"])
    if k == "filter_errors":
        return subj.filter_errors(undef=op["undef"], drop=op["drop"])
    if k == "filter_duplicates":
        return subj.filter_duplicates(method=op["method"], drop=op["drop"])
    if k == "read":
        return _do_read(subj, op["what"])
    raise KeyError(k)


def run_history(ops, purity=True):
    """Execute a history; total: exceptions are outcome values."""
    import warnings
    pytrs = ensure_repo_on_path()
    warnings.simplefilter("ignore")
    ctx = Ctx()
    subj = None
    outcomes, purity_fail = [], []
    steps = 0
    for k, op in enumerate(ops):
        if k > 0 and subj is None:
            outcomes.append({"skipped": True})
            continue
        pure = purity and subj is not None and is_pure(op)
        before = enc(subj, ctx, full=True) if pure else None
        try:
            ret = _exec(pytrs, subj, op)
            if k == 0:
                subj = ret
                out = {"ok": None}
            else:
                out = {"ok": enc(ret)}
        except Exception as e:  # noqa - outcome value
            out = {"raised": type(e).__name__}
        steps += 1
        if subj is not None and hasattr(subj, "tracts"):
            try:
                out["all_parsed"] = all(
                    bool(getattr(t, "parse_complete", False))
                    for t in subj.tracts)
            except Exception:  # noqa
                out["all_parsed"] = False
        if pure:
            after = enc(subj, ctx, full=True)
            path, _ = compare(before, after, exact=True)
            if path is not None:
                purity_fail.append({
                    "step": k, "path": path,
                    "before": excerpt(before, path),
                    "after": excerpt(after, path)})
        outcomes.append(out)
    final = enc(subj) if subj is not None else None
    probes = _probes(subj, ops, outcomes)
    return {"outcomes": outcomes, "final": final, "purity": purity_fail,
            "probes": probes, "steps": steps}


def _probes(subj, ops, outcomes):
    p = {}
    if subj is None:
        p["create_raised"] = 1
        return p
    tracts = list(getattr(subj, "tracts", [])) or []
    own = [subj] + tracts
    tflags = 0
    for o in own:
        for f in getattr(o, "w_flags", []):
            if isinstance(f, str) and f.startswith(
                    ("dup_lot", "dup_qq", "nonsequential_lots")):
                tflags += 1
    if tflags:
        p["subject_has_tract_level_flags"] = 1
    if getattr(subj, "w_flags", None) or getattr(subj, "e_flags", None):
        p["subject_has_flags"] = 1
    if any(o.get("raised") for o in outcomes):
        p["some_op_raised"] = 1
    return p


# --------------------------------------------------------------------------
# normal form
# --------------------------------------------------------------------------

def _dependent(op):
    k = op["op"]
    if k == "filter" and op["drop"] and op["pred"] in DEPENDENT_PREDS:
        return True
    if k == "filter_duplicates" and op["drop"] \
            and op["method"] in DEPENDENT_DUP_METHODS:
        return True
    return False


def fold_config(nf, idx, ops, raised):
    """
    N(H) with the config assignments before the last committed parse folded
    into the constructor.  None when there is nothing to fold (no later
    committed parse, or no assignment before it).
    """
    last_j = None
    for j, k in enumerate(idx):
        if k and nf[j]["op"] == "parse" and nf[j].get("commit") \
                and not raised[k]:
            last_j = j
    if last_j is None:
        return None
    texts, keep = [], []
    for j in range(1, last_j):
        if nf[j]["op"] == "set_config" and idx[j] is not None \
                and not raised[idx[j]]:
            texts.append(nf[j]["config"])
        else:
            keep.append(nf[j])
    if not texts:
        return None
    if any(nf[j]["op"] != "set_config" for j in range(1, last_j)):
        return None      # something else sits between: keep it simple
    create = copy.deepcopy(nf[0])
    parts = [t for t in [create.get("config")] + texts if t]
    create["config"] = ",".join(parts) if parts else None
    # An init keyword beats the config string of the same init, but a LATER
    # assignment beats the init keyword; so a keyword whose setting is
    # mentioned by a folded assignment no longer applies.
    mentioned = set()
    for t in texts:
        mentioned |= _names_in(t)
    for kw_name in ("parse_qq", "layout"):
        if kw_name in mentioned:
            create["kw"].pop(kw_name, None)
    return [create] + keep + nf[last_j:]


def _names_in(config_text):
    """Setting names a config text mentions (my own reading of the syntax)."""
    import re
    names = set()
    for tok in re.split(r"[;,]", re.sub(r"\s+", "", config_text or "")):
        if not tok:
            continue
        if tok in ("n", "s", "N", "S"):
            names.add("default_ns")
        elif tok in ("e", "w", "E", "W"):
            names.add("default_ew")
        elif tok in opgen.LAYOUTS:
            names.add("layout")
        else:
            names.add(re.split(r"[.=:]", tok)[0])
    return names


def _ret_only(outcome):
    """The call's own outcome, without the harness's bookkeeping keys."""
    return {k: v for k, v in outcome.items() if k in ("ok", "raised")}


def settings_only_prefix(ops, raised):
    """create (never parsing) + the config assignments that took effect."""
    create = copy.deepcopy(ops[0])
    if create["cls"] == "PLSSDesc":
        create["kw"]["wait_to_parse"] = True
    else:
        create["kw"]["parse_qq"] = False
    out = [create]
    for k in range(1, len(ops)):
        if ops[k]["op"] == "set_config" and not raised[k]:
            out.append(ops[k])
    return out


def normal_form(ops, raised, all_parsed=None, _rewritten=False):
    """
    N(H): the sub-history a freshly constructed object needs in order to be in
    the state H claims to leave behind.  Returns (ops', kept_index_map) where
    kept_index_map[j] is the index in H of N(H)[j] (or None for a rewritten
    op).
    """
    n = len(ops)
    cls = ops[0]["cls"]
    last = None
    for k in range(1, n):
        if ops[k]["op"] == "parse" and ops[k]["commit"] and not raised[k]:
            last = k
    # "... through parse() or parse_tracts()": if the description-level parse
    # left the tracts unparsed and the FIRST tract-level operation after it
    # is a plain parse_tracts() (no config, no overrides), then the same
    # state must result from asking the description-level parse for
    # parse_qq=True right away.  Rewrite H accordingly (index-preserving:
    # the parse_tracts becomes an erasable read) and normalise that.
    if cls == "PLSSDesc" and all_parsed is not None and not _rewritten:
        b = last if last is not None else 0
        if not all_parsed[b] and not raised[b]:
            first = None
            for k in range(b + 1, n):
                if is_pure(ops[k]) or raised[k]:
                    if raised[k]:
                        break
                    continue
                if _dependent(ops[k]):
                    break      # its answer depends on whether tracts are parsed
                if ops[k]["op"] in ("parse_tracts", "config_tracts",
                                    "tract_parse", "tracts_edit"):
                    first = k
                    break
            if first is not None and ops[first]["op"] == "parse_tracts" \
                    and not ops[first]["config"] and not ops[first]["kw"]:
                ops2 = copy.deepcopy(ops)
                ops2[b]["kw"]["parse_qq"] = True
                ops2[b]["__rw"] = True     # its return value now differs
                ops2[first] = {"op": "read", "what": "repr"}
                ap2 = list(all_parsed)
                for k in range(b, n):
                    ap2[k] = True
                return normal_form(ops2, raised, ap2, _rewritten=True)
    create = copy.deepcopy(ops[0])
    if last is not None:
        if cls == "PLSSDesc":
            create["kw"]["wait_to_parse"] = True
        else:
            create["kw"]["parse_qq"] = False
    out, idx = [create], [0]
    boundary = last if last is not None else 0
    for k in range(1, n):
        op = ops[k]
        kind = op["op"]
        if is_pure(op):
            # also when it raised: the purity oracle has checked, at the
            # step, that it left no trace on the subject
            continue
        if raised[k]:
            out.append(op), idx.append(k)
            continue
        if kind == "set_config":
            out.append(op), idx.append(k)
            continue
        if kind == "parse":
            if k == last:
                out.append(op), idx.append(k)
            continue
        if k < boundary:
            continue
        if kind == "preprocess":
            later = any(ops[j]["op"] == "preprocess" and ops[j]["commit"]
                        and not raised[j] for j in range(k + 1, n))
            if not later:
                out.append(op), idx.append(k)
            continue
        if kind == "tract_parse":
            erasable = False
            for j in range(k + 1, n):
                if raised[j] or _dependent(ops[j]):
                    break
                if ops[j]["op"] == "parse_tracts":
                    erasable = True
                    break
            if not erasable and not op["kw"] and all_parsed is not None \
                    and all_parsed[boundary] and not raised[boundary]:
                # a plain re-parse of one tract whose results already stem
                # from its current settings (nothing tract-level happened
                # since the description-level parse, in H's own world)
                quiet = not any(
                    (not is_pure(ops[j])) and ops[j]["op"] in (
                        "config_tracts", "parse_tracts", "tract_parse")
                    or raised[j]
                    for j in range(boundary + 1, k))
                erasable = quiet
            if not erasable:
                out.append(op), idx.append(k)
            continue
        if kind == "parse_tracts":
            erasable = False
            for j in range(k + 1, n):
                if raised[j] or _dependent(ops[j]):
                    break
                if ops[j]["op"] == "parse_tracts":
                    erasable = True
                    break
            if not erasable:
                out.append(op), idx.append(k)
            elif op["config"]:
                out.append({"op": "config_tracts", "config": op["config"]})
                idx.append(None)
            continue
        # config_tracts, sort, filters with drop=True
        out.append(op), idx.append(k)
    # Re-parse with unchanged settings: if the tracts were parsed by the
    # description-level parse (or at creation) and, in N's own world, no
    # tract setting changed and no other tract-level parse happened since,
    # then a final plain parse_tracts() is a re-parse with unchanged settings
    # and C14 says it must change nothing -> erase it.
    if cls == "PLSSDesc" and all_parsed is not None and all_parsed[boundary] \
            and not raised[boundary]:
        pts = [j for j, k in enumerate(idx)
               if k is not None and k > boundary and not raised[k]
               and out[j]["op"] == "parse_tracts"]
        if pts:
            j = pts[-1]
            opj = out[j]
            start = idx.index(boundary) if boundary in idx else 0
            between = [(out[i], idx[i]) for i in range(start + 1, j)]
            blocked = any(
                o["op"] in ("config_tracts", "parse_tracts", "tract_parse")
                or (ki is not None and raised[ki]) for o, ki in between)
            if not opj["config"] and not opj["kw"] and not blocked:
                del out[j], idx[j]
    return out, idx


# --------------------------------------------------------------------------
# check
# --------------------------------------------------------------------------

def shape_of(ops):
    toks = []
    for op in ops:
        t = op["op"][:2] if op["op"] != "parse_tracts" else "pt"
        if "commit" in op:
            t += "+" if op["commit"] else "-"
        if "drop" in op:
            t += "d" if op["drop"] else ""
        toks.append(t)
    return ops[0]["cls"][0] + ":" + ",".join(toks)


def check_plan(plan):
    ops = plan["ops"]
    failures = []
    stats = {}

    def bump(k, v=1):
        stats[k] = stats.get(k, 0) + v

    h = fork_call(run_history, (ops, True))
    execs = 1
    raised = [bool(o.get("raised")) for o in h["outcomes"]]
    for pf in h["purity"]:
        failures.append({
            "oracle": "purity",
            "path": pf["path"], "path_class": path_class(pf["path"]),
            "detail": {"step": pf["step"], "op": ops[pf["step"]],
                       "before": pf["before"], "after": pf["after"]}})
    for k, v in h["probes"].items():
        bump(k, v)
    log = {"H": h["outcomes"], "final": h["final"]}
    nontrivial = False
    if h["final"] is not None:
        all_parsed = [bool(o.get("all_parsed")) for o in h["outcomes"]]
        nf, idx = normal_form(ops, raised, all_parsed)
        erased_committed = [
            k for k in range(1, len(ops))
            if k not in idx and not is_pure(ops[k])]
        # the create's own init-parse is "erased" when it was rewritten
        create_rewritten = nf[0] != ops[0]
        created_parsed = (
            (ops[0]["cls"] == "PLSSDesc"
             and not ops[0]["kw"].get("wait_to_parse"))
            or (ops[0]["cls"] == "Tract" and _tract_parses_at_init(ops[0])))
        n = fork_call(run_history, (nf, False))
        execs += 1
        log["N"] = n["final"]
        path, order_only = compare(h["final"], n["final"], exact=False)
        if order_only:
            bump("order_only_difference")
        if path is not None:
            failures.append({
                "oracle": "normal_form",
                "path": path, "path_class": path_class(path),
                "detail": {"after_H": excerpt(h["final"], path),
                           "after_N": excerpt(n["final"], path),
                           "normal_form": nf}})
        # "...compared with a freshly constructed object given the final
        # settings": the same normal form with every config assignment that
        # preceded the last committed parse folded into the constructor's
        # config string (assignments accumulate; within one string the
        # later mention wins).
        nf2 = fold_config(nf, idx, ops, raised)
        if nf2 is not None:
            n2 = fork_call(run_history, (nf2, False))
            execs += 1
            bump("folded_reference_checked")
            path2, oo2 = compare(h["final"], n2["final"], exact=False)
            if path2 is not None:
                failures.append({
                    "oracle": "normal_form_folded",
                    "path": path2, "path_class": path_class(path2),
                    "detail": {"after_H": excerpt(h["final"], path2),
                               "after_fresh": excerpt(n2["final"], path2),
                               "fresh_history": nf2}})
        # Return value of the last committed description-level parse (the
        # only kept call whose return value C14 speaks about: it is what
        # .tracts now holds).  Return values of other kept calls (e.g. a
        # filter(drop=True) between two parse_tracts) legitimately see the
        # intermediate state that N erased.
        last_parse = [k for k in idx if k and ops[k]["op"] == "parse"
                      and ops[k]["commit"] and not raised[k]]
        for j, k in enumerate(idx):
            if k is None or k == 0 or k not in last_parse[-1:]:
                continue
            if nf[j].get("__rw"):
                continue
            a, b = _ret_only(h["outcomes"][k]), _ret_only(n["outcomes"][j])
            path, oo = compare(a, b, exact=False)
            if path is not None:
                failures.append({
                    "oracle": "kept_call_outcome",
                    "path": path, "path_class": path_class(path),
                    "detail": {"step": k, "op": ops[k],
                               "in_H": excerpt(a, path),
                               "in_N": excerpt(b, path),
                               "normal_form": nf}})
                break
        # ret-twin for up to two non-committed parses
        nc = [k for k in range(1, len(ops))
              if ops[k]["op"] == "parse" and not ops[k]["commit"]]
        for k in nc[:2]:
            # What a dry run returns is a function of the text and of the
            # settings in force -- never of what was committed before.  So
            # the reference object is one that has the same settings but has
            # never parsed anything: creation (told not to parse) plus the
            # config assignments made so far.
            pre = settings_only_prefix(ops[:k], raised[:k])
            t = fork_call(run_history, (pre + [ops[k]], False))
            execs += 1
            a, b = _ret_only(h["outcomes"][k]), _ret_only(t["outcomes"][-1])
            path, oo = compare(a, b, exact=False)
            bump("ret_twin_checked")
            if path is not None:
                failures.append({
                    "oracle": "ret_twin",
                    "path": path, "path_class": path_class(path),
                    "detail": {"step": k, "op": ops[k],
                               "in_H": excerpt(a, path),
                               "on_fresh": excerpt(b, path),
                               "fresh_history": pre + [ops[k]]}})
        # probes / non-triviality
        if erased_committed:
            bump("erased_committed_calls", len(erased_committed))
        if create_rewritten and created_parsed:
            bump("init_parse_replaced_by_later_parse")
        pts = [k for k in erased_committed if ops[k]["op"] == "parse_tracts"]
        if pts:
            bump("reparse_tracts_erased", len(pts))
        if any(ops[k]["op"] == "parse" for k in erased_committed):
            bump("reparse_desc_erased")
        nc_changes = False
        for k in nc:
            o = h["outcomes"][k]
            if "ok" in o and ops[k]["kw"]:
                nc_changes = True
        if nc_changes:
            bump("noncommit_with_override")
        if any(op["op"] == "parse_tracts" for op in ops) and \
                any(op["op"] == "sort" for op in ops):
            bump("parse_tracts_and_sort")
        if sum(1 for op in ops if op["op"] == "set_config") >= 2:
            bump("config_accumulated>=2")
        if any(op["op"] == "preprocess" and op["commit"] for op in ops[1:]):
            bump("preprocess_commit")
        has_flags = bool(h["probes"].get("subject_has_flags")
                         or h["probes"].get("subject_has_tract_level_flags"))
        nontrivial = bool(
            has_flags and (erased_committed
                           or (create_rewritten and created_parsed)
                           or nc_changes))
    return {
        "failures": failures, "stats": stats, "nontrivial": nontrivial,
        "steps": h["steps"], "execs": execs, "log": digest(log),
        "shape": shape_of(ops),
    }


def _tract_parses_at_init(create):
    if create["kw"].get("parse_qq") is True:
        return True
    if create["kw"].get("parse_qq") is False:
        return False
    cfg = create.get("config") or ""
    toks = [t.strip() for t in cfg.replace(";", ",").split(",")]
    return "parse_qq" in toks


# --------------------------------------------------------------------------
# shrinking
# --------------------------------------------------------------------------

SHORT_DESCS = ("T154N-R97W Sec 14: Lots 1, 1", "T154N-R97W Sec 14: NE/4, NE/4",
               "T154-R97 Sec 14: NE/4")
SHORT_BLOCKS = ("Lots 1, 1", "NE/4, NE/4", "NE/4")


def shrink(plan):
    ops = plan["ops"]
    n = len(ops)
    # drop chunks, then single ops (never the create)
    size = (n - 1) // 2
    while size >= 1:
        for s in range(1, n - size + 1):
            yield {"machine": NAME, "ops": ops[:s] + ops[s + size:]}
        size //= 2
    for k in range(1, n):
        op = ops[k]
        for key in list(op.get("kw", {})):
            o2 = copy.deepcopy(op)
            del o2["kw"][key]
            yield {"machine": NAME, "ops": ops[:k] + [o2] + ops[k + 1:]}
        if op.get("config") and op["op"] == "parse_tracts":
            o2 = copy.deepcopy(op)
            o2["config"] = None
            yield {"machine": NAME, "ops": ops[:k] + [o2] + ops[k + 1:]}
        if op.get("config") and "," in op["config"]:
            for part in op["config"].split(","):
                o2 = copy.deepcopy(op)
                o2["config"] = part.strip()
                yield {"machine": NAME, "ops": ops[:k] + [o2] + ops[k + 1:]}
    c = ops[0]
    for key in list(c["kw"]):
        c2 = copy.deepcopy(c)
        del c2["kw"][key]
        yield {"machine": NAME, "ops": [c2] + ops[1:]}
    if c.get("config"):
        c2 = copy.deepcopy(c)
        c2["config"] = None
        yield {"machine": NAME, "ops": [c2] + ops[1:]}
    pool = SHORT_DESCS if c["cls"] == "PLSSDesc" else SHORT_BLOCKS
    for t in pool:
        if len(t) < len(c["text"]):
            c2 = copy.deepcopy(c)
            c2["text"] = t
            yield {"machine": NAME, "ops": [c2] + ops[1:]}
    # generic text shortening: drop lines / trailing comma-separated parts
    txt = c["text"]
    for sep in ("\n", "; ", ", "):
        parts = txt.split(sep)
        if len(parts) > 1:
            for i in range(len(parts)):
                c2 = copy.deepcopy(c)
                c2["text"] = sep.join(parts[:i] + parts[i + 1:])
                yield {"machine": NAME, "ops": [c2] + ops[1:]}


def describe(plan):
    return shape_of(plan["ops"])


RULE = (
    "Each run draws (from random.Random(derive(VERIF_SEED,'C14',i))) one "
    "subject (PLSSDesc 70% / stand-alone Tract 30%) on a generated PLSS text "
    "(witness texts, 16-22-section descriptions and dressed variants "
    "included) and a history of 1-12 further operations from a per-run "
    "random subset of {config assignment (text or Config object), "
    "parse(commit in {T,F}, 0-3 keyword overrides; the caller may then edit "
    "what a dry run returned), parse_tracts(config?, overrides), "
    "config_tracts, re-parse of one subordinate tract, in-place edits of "
    ".tracts, preprocess(commit), sort_tracts, filter / filter_errors / "
    "filter_duplicates (drop in {T,F}), 28 read-only calls}; a third of runs "
    "are forced to contain a back-to-back repeated committed call and a third "
    "a non-committed call with overrides. Oracles: purity at every pure step "
    "(exact, incl. identities); final state after H vs after the normal form "
    "N(H) and vs N(H) with the config assignments folded into the "
    "constructor; return value of dry runs vs a never-parsed object with the "
    "same settings - each history in its own fork of a pristine process. A "
    "run is NON-TRIVIAL iff the subject or one of its tracts carries at "
    "least one flag AND (N erased at least one committed call, or replaced "
    "the constructor's own parse by a later committed parse, or a "
    "non-committed parse with keyword overrides returned normally). distinct "
    "= distinct plan digests among non-trivial runs."
)
ASSUMPTIONS = [
    "the library's own behaviour on the shorter history N(H) in a clean "
    "process is the reference (single-call correctness is C01-C12/C20's "
    "business, not checked here)",
    "flag lists and lot_acres are compared as multisets between two different "
    "histories (C14 promises no duplicates, not an order); before/after "
    "comparisons of one object are order- and identity-exact",
    "public attributes only (names not starting with '_') plus the documented "
    "properties; CPython 3.12 fork/pickle are trusted",
    "no fault space: these paths perform no I/O, read no clock and share "
    "nothing with other threads (DESIGN 4.1)",
]
