"""
C19 -- `csvfs`: the two CSV writers and the record forms on a simulated
file system, with every raw I/O call of every workload faulted.

Fault-free oracle: an independent row model (one header row iff this open
created or truncated the file, then exactly one row per tract per write, in
call order; each cell checked against the tract's attribute by my own
conversion) compared with ``csv.reader`` over the durable bytes after every
op that closes a file; the dict/list record forms compared with ``getattr``.

Fault enumeration: the workload first runs fault-free and records its raw
I/O trace; then for EVERY call index and every applicable fault kind the
workload is re-run (in a further fork taken after the sources were parsed)
with exactly that fault, and checked against the fault-free twin:
  (a) an op that returned normally made its fault-free contribution durable;
  (b) after a failed op the file is a byte-prefix of the twin's file after
      that op and (unless this op truncated it) an extension of the twin's
      file before it; other files are untouched;
  (c) an injected OSError surfaces from the op in which it happened -- never
      silence;
  (d) after operator repair (cut torn last record, delete empty file) one
      append op adds exactly its rows, no second header.
"""

import copy
import csv
import errno
import io
import json

from .. import corpus, opgen
from ..engine import fork_call, ensure_repo_on_path, REPO
from ..snapshot import enc, compare, path_class, digest, Ctx, excerpt
from ..simfs import SimFS, SimCrash
from ..interrupt import Interrupter, SimInterrupt, in_unprotectable_position

PROP = "C19"
NAME = "csvfs"
LEVEL = "fault_enumeration"

ATTRIBUTES = (
    "trs", "twp", "twp_num", "twp_ns", "rge", "rge_num", "rge_ew", "twprge",
    "sec", "sec_num", "qqs", "aliquots_whole", "lots", "ilots", "lots_qqs",
    "desc", "orig_desc", "pp_desc", "desc_is_flawed", "w_flags",
    "w_flag_lines", "e_flags", "e_flag_lines", "flags", "flag_lines",
    "lot_acres", "source",
)
PATHS = ("/simfs/out.csv", "/simfs/other.csv")
SEPARATORS = set(", ;:|/=\t")
FAULT_KINDS = {
    # no "stat_fail": Path.exists() propagates EIO but os.path.exists() /
    # isfile() swallow every OSError, and both are reasonable ways to ask
    # "is this a new file?" -- demanding that a failing stat surfaces would
    # flag the latter (soundness self-test: benign_exists_via_os_path)
    "stat": ("crash",),
    "open": ("open_fail", "crash"),
    "write": ("write_fail", "short", "crash"),
    "close": ("close_fail", "crash"),
    "truncate": ("crash",),
    "rename": ("rename_fail", "crash"),
    "remove": ("remove_fail", "crash"),
    "fsync": ("fsync_fail", "crash"),
}


# --------------------------------------------------------------------------
# generation
# --------------------------------------------------------------------------

# `.source` is documented as free-form: within one export it may be a scalar
# for one tract and a list, tuple or dict for the next (round 15: a writer
# that decides from its first row which columns hold containers).
SOURCE_VALUES = (
    None, "doc 17", 42, "@vol 3", "=A1", 0, {"__bytes": "DOC-0017"}, 2.5, True,
    ["Book 12", "Page 40"], ["vol 3", ["p 7", "p 8"]], [],
    {"__tuple": ["reel 9", 114]}, {"__dict": {"book": 12, "page": "40A"}},
    None, "doc 18", ["Book 13"],
)


def gen_attrs(rng):
    k = rng.choice((1, 2, 3, 4, 5, 8))
    attrs = rng.sample(ATTRIBUTES, k)
    if rng.random() < 0.35:
        attrs.append(rng.choice(("ilots", "w_flag_lines", "flag_lines",
                                 "lot_acres", "e_flag_lines", "lots")))
    if rng.random() < 0.12:
        attrs.insert(rng.randrange(len(attrs) + 1),
                     rng.choice(("bogus_attr", "acres", "TRS")))
    if rng.random() < 0.08:
        attrs.append(attrs[0])          # the same column twice
    if rng.random() < 0.15:
        attrs.append(rng.choice(("orig_desc", "desc", "pp_desc", "source")))
    if "source" not in attrs and rng.random() < 0.12:
        # the one column whose type may differ from row to row
        attrs.insert(rng.randrange(len(attrs) + 1), "source")
    return attrs


def gen_nice(rng, attrs, earlier=None):
    if earlier and rng.random() < 0.35:
        return copy.deepcopy(rng.choice(earlier))
    r = rng.random()
    if r < 0.4:
        return None
    if r < 0.55:
        return True
    if r < 0.65:
        return False
    if r < 0.85:
        n = len(attrs) if rng.random() < 0.7 else max(1, len(attrs) - 1)
        return [f"H{i}_{a}" for i, a in enumerate(attrs[:n])]
    return {a: f"nice {a}" for a in attrs if rng.random() < 0.6}


def gen_source(rng):
    r = rng.random()
    if r < 0.004:
        # more than 702 tracts in one source: past the last two-letter UID
        # suffix ('zz')
        return {"kind": "desc", "config": None, "parse_qq": False,
                "source": None, "huge": True,
                "text": "\n".join(f"T{k}N-R1W Secs 1 - 36: NE/4"
                                  for k in range(1, rng.choice((20, 21)) + 1))}
    if r < 0.03:
        # carriage returns, no comma / quote / line feed anywhere
        return {"kind": "desc", "config": None, "parse_qq": True,
                "source": "scan 4\rpage 2",
                "text": rng.choice((
                    "T154N-R97W Sec 14: NE/4\rSec 15: W/2",
                    "T154N-R97W\rSec 14: Lots 1 - 3\rSec 15: that part of the NE/4\rlying north of the river"))}
    if r < 0.05:
        # more than 26 (and sometimes more than 52) tracts in one source
        n2 = rng.choice((2, 6, 20, 30))
        return {"kind": "desc", "config": None, "parse_qq": rng.random() < 0.5,
                "source": None,
                "text": f"T1N-R1W Secs 1 - 26: NE/4\nT2N-R1W Secs 1 - {n2}: Lot 1"}
    if r < 0.075:
        # lot divisions of every kind (halves, quarters, compound, ranges)
        return {"kind": "desc", "config": None, "parse_qq": True,
                "source": None,
                "text": rng.choice((
                    "T154N-R97W Sec 14: NE/4 of Lot 1, N/2SW/4 of Lot 3, "
                    "Lot 4(39.5)\nSec 15: W/2E/2 of Lots 2 and 3, S/2",
                    "T3S-R7E Sec 6: SW/4 of Lot 2, E/2 of Lots 5 - 7, "
                    "N/2N/2 of Lot 9(12.25)",
                    "T154N-R97W Sec 1: S/2NE/4 of Lot 12, Lot 13, NW/4"))}
    if r < 0.09:
        return {"kind": "empty"}
    if r < 0.13:
        return {"kind": "desc_unparsed", "text": corpus.gen_desc(rng)}
    if r < 0.7:
        return {"kind": "desc", "text": corpus.gen_desc(rng),
                "config": opgen.gen_config_text(
                    rng, ("clean_qq", "suppress_lot_divs", "qq_depth_min",
                          "segment", "default_ns", "ocr_scrub"), hi=2),
                "parse_qq": rng.random() < 0.8,
                "source": rng.choice(SOURCE_VALUES)}
    if r < 0.8:
        return {"kind": "desc", "text": rng.choice(corpus.HANDPICKED),
                "config": None, "parse_qq": True, "source": None}
    return {"kind": "tract", "text": corpus.gen_block(rng, want_flags=True),
            "trs": corpus.gen_trs_string(rng),
            "parse_qq": rng.random() < 0.8}


def gen_shape(rng, n_src, depth):
    """A nested selection: leaves are sources (as they are, as a new
    TractList, or one single Tract of theirs), nodes are sequences."""
    def leaf():
        return {"leaf": rng.randrange(n_src),
                "via": rng.choice(("obj", "tl", "tract", "tract")),
                "j": rng.randrange(8)}
    items = []
    for _ in range(rng.randint(1, 4)):
        if depth < 2 and rng.random() < 0.3:
            items.append(gen_shape(rng, n_src, depth + 1))
        else:
            items.append(leaf())
    return {"seq": items,
            "as": rng.choice(("list", "list", "tuple", "iter", "gen"))}


def gen_plan(rng):
    n_src = rng.randint(2, 4)
    sources = [gen_source(rng) for _ in range(n_src)]
    kinds = [k for k in ("csv", "tw", "records") if rng.random() < 0.75] \
        or ["csv", "tw"]
    ops = []
    nices = []     # list/dict header requests used so far (may be re-used)
    n_ops = rng.randint(1, 8)
    next_w = 0
    open_w = {}     # writer id -> path (generator-side bookkeeping only)
    closed_w = []
    hugei = [j for j, sp in enumerate(sources) if sp.get("huge")]
    if hugei and rng.random() < 0.7:
        # the point of a huge source: one write() call with UIDs past 'zz'
        attrs = gen_attrs(rng)[:3]
        ops.append({"op": "tw_new", "w": 0, "attrs": attrs,
                    "path": PATHS[0], "mode": rng.choice("wa"), "nice": None,
                    "plus": None, "uid": rng.choice((0, 27))})
        ops.append({"op": "tw_write", "w": 0, "src": hugei[0], "plus": "auto",
                    "as": "list"})
        open_w[0] = PATHS[0]
        next_w = 1
    while len(ops) < n_ops:
        k = rng.choice(kinds)
        if k == "csv":
            free = [p for p in PATHS if p not in open_w.values()]
            if not free:
                k = "tw"
            else:
                attrs = gen_attrs(rng)
                ops.append({"op": "csv", "src": rng.randrange(n_src),
                            "attrs": attrs, "path": rng.choice(free),
                            "mode": rng.choice("wa"),
                            "nice": gen_nice(rng, attrs, nices),
                            "via": rng.choice(("desc", "tractlist"))})
                if isinstance(ops[-1]["nice"], (list, dict)):
                    nices.append(ops[-1]["nice"])
                continue
        if k == "tw":
            r = rng.random()
            if open_w and r < 0.55:
                w = rng.choice(sorted(open_w))
                srcsel = rng.choice((
                    rng.randrange(n_src),
                    [rng.randrange(n_src) for _ in range(rng.randint(1, 3))],
                    None))
                if rng.random() < 0.35:
                    # a mixed, nested container: single Tracts, PLSSDesc /
                    # TractList objects and inner sequences side by side
                    srcsel = {"shape": gen_shape(rng, n_src, 0)}
                ops.append({"op": "tw_write", "w": w, "src": srcsel,
                            "plus": "auto",
                            "as": rng.choice(("list", "list", "iter", "tuple"))})
            elif open_w and r < 0.78:
                w = rng.choice(sorted(open_w))
                ops.append({"op": "tw_close", "w": w})
                closed_w.append((w, open_w.pop(w)))
            elif closed_w and r < 0.92:
                w, p = closed_w[-1]
                if p not in open_w.values():
                    closed_w.pop()
                    ops.append({"op": "tw_reopen", "w": w})
                    open_w[w] = p
            else:
                free = [p for p in PATHS if p not in open_w.values()]
                if free and next_w < 2:
                    attrs = gen_attrs(rng)
                    plus = None
                    if rng.random() < 0.3:
                        plus = ["extra", "note"][:rng.randint(1, 2)]
                    ops.append({"op": "tw_new", "w": next_w, "attrs": attrs,
                                "path": rng.choice(free),
                                "mode": rng.choice("wa"),
                                "nice": gen_nice(rng, attrs, nices),
                                "plus": plus,
                                "uid": rng.choice((None, None, 0, 27))})
                    open_w[next_w] = ops[-1]["path"]
                    if isinstance(ops[-1]["nice"], (list, dict)):
                        nices.append(ops[-1]["nice"])
                    next_w += 1
                elif not open_w:
                    kinds = [x for x in kinds if x != "tw"] or ["csv"]
            continue
        if k == "records" and rng.random() < 0.25:
            free = [p for p in PATHS if p not in open_w.values()]
            if free:
                ops.append({"op": "rm", "path": rng.choice(free)})
            continue
        if k == "records":
            ops.append({"op": "records", "src": rng.randrange(n_src),
                        "attrs": gen_attrs(rng),
                        "group": rng.choice((0, 0, 1, 2, 3)),
                        "form": rng.choice(("dict", "list", "iter_dict",
                                            "iter_list", "to_dict", "to_list"))})
    interrupts = [[rng.randrange(len(ops)),
                   rng.choice((rng.randint(1, 40), rng.randint(1, 300),
                               rng.randint(1, 1200)))]
                  for _ in range(6)]
    return {
        "machine": NAME, "sources": sources, "ops": ops,
        "buffer_size": rng.choice((1, 16, 64, 8192)),
        "chunk_size": rng.choice((1, 16, 64, 8192)),
        "errno": {"stat_fail": errno.EIO, "rename_fail": errno.EIO,
                  "remove_fail": errno.EIO, "fsync_fail": errno.EIO,
                  "open_fail": rng.choice((errno.EACCES, errno.EMFILE,
                                           errno.ENOSPC)),
                  "write_fail": rng.choice((errno.ENOSPC, errno.EIO)),
                  "close_fail": errno.EIO},
        "interrupts": interrupts,
        # for which first-fault points (indices into the sorted list of
        # single faults that ended in a clean recovery) a second fault is
        # enumerated inside the recovery op
        "double": [rng.randrange(10 ** 6)
                   for _ in range(rng.choice((0, 1, 1, 2)))],
        # ~3% of workloads: an interrupt at every traced line of one op
        "int_sweep": rng.randrange(10 ** 6) if rng.random() < 0.03 else None,
    }


# --------------------------------------------------------------------------
# my own conversion: tract attribute -> cell expectation
# --------------------------------------------------------------------------

_MISSING = object()


def _flat(x, out):
    for e in x:
        if isinstance(e, (list, tuple)):
            _flat(e, out)
        else:
            out.append(e)
    return out


_UNAVAILABLE = "<documented attribute raised or is missing>"


def model_attr(tract, att):
    """The value the model expects: the attribute itself; the documented
    'n/a' placeholder only for names that are NOT documented attributes (a
    documented one that raises inside its property must not be mistaken for
    an unknown name - getattr's default swallows AttributeError)."""
    if att in type(tract).ATTRIBUTES:
        try:
            return getattr(tract, att)
        except Exception:  # noqa
            return _UNAVAILABLE
    return getattr(tract, att, _MISSING)


def cell_spec(tract, att):
    v = model_attr(tract, att)
    if v is _UNAVAILABLE:
        return ["never"]
    if v is _MISSING:
        return ["eq", f"{att}: n/a"]
    if v is None:
        return ["none"]
    if isinstance(v, (list, tuple)):
        return ["seq", [str(e) for e in _flat(v, [])]]
    if isinstance(v, dict):
        parts = []
        for k, x in v.items():
            parts += [str(k), str(x)]
        return ["seq", parts]
    return ["eq", str(v)]


def cell_ok(spec, cell):
    kind = spec[0]
    if kind == "eq":
        return cell == spec[1]
    if kind == "never":
        return False
    if kind == "prefix":
        return cell.startswith(spec[1])
    if kind == "none":
        # csv renders None as the empty cell; the text 'None' would read
        # back as a four-letter string value
        return cell == ""
    if kind == "any":
        return True
    pos = 0
    for s in spec[1]:
        if s == "":
            continue
        idx = cell.find(s, pos)
        if idx < 0:
            return False
        if any(ch not in SEPARATORS for ch in cell[pos:idx]):
            return False
        pos = idx + len(s)
    return all(ch in SEPARATORS for ch in cell[pos:])


def header_spec(pytrs, attrs, nice, plus, uid):
    if isinstance(nice, dict):
        row = [nice.get(a, a) for a in attrs]
    elif isinstance(nice, (list, tuple)):
        row = list(nice)
    elif nice:
        row = [pytrs.Tract.ATTRIBUTES.get(a, a) for a in attrs]
    else:
        row = list(attrs)
    if plus:
        row += list(plus)
    if uid:
        row.append("UID")
    return [["eq", str(h)] for h in row]


def _alpha(n):
    s = ""
    if (n - 1) // 26 > 0:
        s += chr((n - 1) // 26 + ord("a") - 1)
    return s + chr((n - 1) % 26 + ord("a"))


def parse_csv(data):
    return list(csv.reader(io.StringIO(data.decode("utf-8"), newline="")))


def rows_match(model_rows, got_rows):
    """None if equal, else a short description of the first difference."""
    if len(model_rows) != len(got_rows):
        return f"row count: expected {len(model_rows)}, file has {len(got_rows)}"
    for r, (m, g) in enumerate(zip(model_rows, got_rows)):
        if len(m) != len(g):
            return f"row {r}: expected {len(m)} cells, got {len(g)}: {g!r}"
        for c, (spec, cell) in enumerate(zip(m, g)):
            if not cell_ok(spec, cell):
                return f"row {r} cell {c}: expected {spec!r}, got {cell!r}"
    return None


# --------------------------------------------------------------------------
# workload execution (inside a fork; sources already parsed by the parent)
# --------------------------------------------------------------------------

def _plan_value(v):
    """Plan data -> the Python value it stands for (JSON has no bytes)."""
    if isinstance(v, dict) and "__bytes" in v:
        return v["__bytes"].encode("ascii")
    if isinstance(v, dict) and "__tuple" in v:
        return tuple(_plan_value(x) for x in v["__tuple"])
    if isinstance(v, dict) and "__dict" in v:
        return dict(v["__dict"])
    if isinstance(v, list):
        return [_plan_value(x) for x in v]
    return v


def build_sources(pytrs, specs):
    out = []
    for s in specs:
        try:
            if s["kind"] == "empty":
                out.append(pytrs.TractList())
            elif s["kind"] == "desc_unparsed":
                out.append(pytrs.PLSSDesc(s["text"], wait_to_parse=True))
            elif s["kind"] == "desc":
                d = pytrs.PLSSDesc(s["text"], config=s["config"],
                                   parse_qq=s["parse_qq"],
                                   source=_plan_value(s["source"]))
                out.append(d)
            else:
                t = pytrs.Tract(s["text"], trs=s["trs"],
                                parse_qq=s["parse_qq"])
                out.append(pytrs.TractList([t]))
        except Exception:  # noqa - not this machine's business (C03)
            out.append(pytrs.TractList())
    return out


def tracts_of(pytrs, src):
    return list(src.tracts) if isinstance(src, pytrs.PLSSDesc) else list(src)


class Runner:
    def __init__(self, pytrs, plan, srcs, fs):
        from pytrs.tractwriter import TractWriter
        self.TW = TractWriter
        self.pytrs, self.plan, self.srcs, self.fs = pytrs, plan, srcs, fs
        self.writers = {}
        self.nice_objs = {}    # a caller re-using one header list object
        self.model = {}        # path -> list of row specs
        self.dirty = set()     # paths with an open writer (content not final)
        self.stats = {}

    def bump(self, k, v=1):
        self.stats[k] = self.stats.get(k, 0) + v

    def nice(self, value):
        """Equal header lists/dicts in the plan are ONE object, as when a
        caller keeps its header list in a variable and passes it again."""
        if not isinstance(value, (list, dict)):
            return value
        key = json.dumps(value, sort_keys=True)
        if key not in self.nice_objs:
            self.nice_objs[key] = copy.deepcopy(value)
        else:
            self.bump("nice_headers_object_reused")
        return self.nice_objs[key]

    def shape_tracts(self, spec):
        if "seq" in spec:
            out = []
            for x in spec["seq"]:
                out += self.shape_tracts(x)
            return out
        ts = tracts_of(self.pytrs, self.srcs[spec["leaf"] % len(self.srcs)])
        if spec["via"] == "tract" and ts:
            return [ts[spec["j"] % len(ts)]]
        return ts

    def shape_obj(self, spec):
        if "seq" in spec:
            items = [self.shape_obj(x) for x in spec["seq"]]
            how = spec["as"]
            if how == "tuple":
                return tuple(items)
            if how == "iter":
                self.bump("write_given_an_iterator")
                return iter(items)
            if how == "gen":
                self.bump("write_given_an_iterator")
                return (x for x in items)
            return items
        src = self.srcs[spec["leaf"] % len(self.srcs)]
        ts = tracts_of(self.pytrs, src)
        if spec["via"] == "tract" and ts:
            self.bump("write_given_single_tract_in_container")
            return ts[spec["j"] % len(ts)]
        if spec["via"] == "tl":
            return self.pytrs.TractList(ts)
        return src

    def src_tracts(self, sel):
        if sel is None:
            return None
        if isinstance(sel, dict):
            return self.shape_tracts(sel["shape"])
        if isinstance(sel, list):
            out = []
            for i in sel:
                out += tracts_of(self.pytrs, self.srcs[i % len(self.srcs)])
            return out
        return tracts_of(self.pytrs, self.srcs[sel % len(self.srcs)])

    def src_obj(self, sel):
        if sel is None:
            return None
        if isinstance(sel, dict):
            self.bump("write_nested_mixed_container")
            return self.shape_obj(sel["shape"])
        if isinstance(sel, list):
            return [self.srcs[i % len(self.srcs)] for i in sel]
        return self.srcs[sel % len(self.srcs)]

    def note_cells(self, tracts, attrs):
        for t in tracts:
            for a in attrs:
                v = model_attr(t, a)
                if v is _MISSING:
                    self.bump("cell:unknown_attr")
                elif v is None:
                    self.bump("cell:none")
                elif isinstance(v, dict):
                    self.bump("cell:dict_nonempty" if v else "cell:dict_empty")
                elif isinstance(v, (list, tuple)):
                    if not v:
                        self.bump("cell:list_empty")
                    elif isinstance(v[0], int):
                        self.bump("cell:int_list")
                    elif isinstance(v[0], tuple):
                        self.bump("cell:tuple_list")
                    else:
                        self.bump("cell:list_nonempty")
                elif isinstance(v, str):
                    if "\n" in v:
                        self.bump("cell:multiline")
                    if '"' in v or "," in v:
                        self.bump("cell:quoted")

    # ---- one op; returns an outcome dict --------------------------------
    def do(self, k, op):
        pytrs, fs = self.pytrs, self.fs
        kind = op["op"]
        if kind == "csv":
            path = op["path"]
            if path in self.dirty:
                return {"skipped": "path has an open writer"}
            src = self.srcs[op["src"] % len(self.srcs)]
            tracts = tracts_of(pytrs, src)
            existed = path in fs.files
            fresh = op["mode"] == "w" or not existed
            new_rows = []
            if fresh:
                new_rows.append(header_spec(pytrs, op["attrs"], op["nice"],
                                            None, None))
            for t in tracts:
                new_rows.append([cell_spec(t, a) for a in op["attrs"]])
            self.note_cells(tracts, op["attrs"])
            if op["mode"] == "a" and existed:
                self.bump("append_existing_no_header")
            if op["mode"] == "a" and not existed:
                self.bump("append_missing_gets_header")
            if any(w["path"] == path for w in self.writers.values()):
                self.bump("csv_and_tw_same_path")
            base = [] if op["mode"] == "w" else self.model.get(path, [])
            # commit the model first: if the call fails the model is what
            # the fault-free world would hold
            self.pending = (path, base + new_rows)
            target = src if op["via"] == "desc" or not isinstance(
                src, pytrs.PLSSDesc) else pytrs.TractList(src)
            target.tracts_to_csv(list(op["attrs"]), path, op["mode"],
                                 self.nice(op["nice"]))
            self.model[path] = base + new_rows
            return {"ok": None, "closed": path}
        if kind == "tw_new":
            path = op["path"]
            if path in self.dirty or op["w"] in self.writers:
                return {"skipped": "path busy or writer exists"}
            existed = path in fs.files
            fresh = op["mode"] == "w" or not existed
            base = [] if op["mode"] == "w" else self.model.get(path, [])
            rows = list(base)
            if fresh:
                rows.append(header_spec(pytrs, op["attrs"], op["nice"],
                                        op["plus"], op["uid"] is not None))
            if op["mode"] == "a" and existed:
                self.bump("append_existing_no_header")
            self.pending = (path, rows)
            w = {"path": path, "attrs": op["attrs"], "plus": op["plus"],
                 "uid": op["uid"], "open": True, "obj": None}
            self.dirty.add(path)
            self.writers[op["w"]] = w
            try:
                # the library gets its own copies: the model must not share
                # a list with the code under test
                w["obj"] = self.TW(list(op["attrs"]), path, op["mode"],
                                   plus_cols=(list(op["plus"]) if op["plus"]
                                              else op["plus"]),
                                   nice_headers=self.nice(op["nice"]),
                                   uid=op["uid"])
            except BaseException:
                w["open"] = False
                raise
            self.model[path] = rows
            return {"ok": None}
        if kind == "tw_write":
            w = self.writers.get(op["w"])
            if w is None or w["obj"] is None:
                return {"skipped": "no such writer"}
            tracts = self.src_tracts(op["src"])
            plus = None
            if w["plus"] and op["plus"] == "auto":
                plus = [("=1+1" if k % 3 == 0 else f"p{k}"), 7][:len(w["plus"])]
            def as_given():
                o = self.src_obj(op["src"])
                if op.get("as") == "iter" and isinstance(o, list):
                    self.bump("write_given_an_iterator")
                    return iter(o)
                if op.get("as") == "tuple" and isinstance(o, list):
                    return tuple(o)
                return o

            if not w["open"]:
                try:
                    w["obj"].write(self.src_obj(op["src"]), plus_cols=plus)
                except RuntimeError:
                    self.bump("write_on_closed_runtimeerror")
                    return {"ok": "RuntimeError"}
                return {"ok": "no error on closed writer"}
            rows = list(self.model.get(w["path"], []))
            n = 0
            if tracts is not None:
                total = len(tracts)
                for j, t in enumerate(tracts, start=1):
                    row = [cell_spec(t, a) for a in w["attrs"]]
                    if plus:
                        row += [["eq", str(x)] for x in plus]
                    if w["uid"] is not None:
                        u_ = str(w['uid']).rjust(4, '0')
                        if total <= 702:
                            row.append(["eq", f"{u_}.{_alpha(j)}-{_alpha(total)}"])
                        elif j <= 702:
                            # the letters are documented up to 'zz' only
                            row.append(["prefix", f"{u_}.{_alpha(j)}-"])
                        else:
                            row.append(["prefix", f"{u_}."])
                    rows.append(row)
                    n += 1
                self.note_cells(tracts, w["attrs"])
            self.pending = (w["path"], rows)
            ret = w["obj"].write(as_given(), plus_cols=plus)
            if w["uid"] is not None:
                w["uid"] += 1
            self.model[w["path"]] = rows
            if isinstance(op["src"], list):
                self.bump("write_multiple_sources")
            return {"ok": ret, "expected_ret": n}
        if kind == "tw_close":
            w = self.writers.get(op["w"])
            if w is None or w["obj"] is None or not w["open"]:
                return {"skipped": "not open"}
            w["open"] = False
            self.dirty.discard(w["path"])
            w["obj"].close()
            return {"ok": None, "closed": w["path"]}
        if kind == "tw_reopen":
            w = self.writers.get(op["w"])
            if w is None or w["obj"] is None or w["open"] \
                    or w["path"] in self.dirty:
                return {"skipped": "cannot reopen"}
            self.dirty.add(w["path"])
            w["obj"].open()
            w["open"] = True
            self.bump("reopen_after_close")
            return {"ok": None}
        if kind == "rm":
            path = op["path"]
            if path in self.dirty:
                return {"skipped": "path has an open writer"}
            if path in fs.files:
                fs.user_delete(path)        # the user's doing, not an I/O call
                self.bump("file_deleted_by_user")
            self.model.pop(path, None)
            return {"ok": None}
        if kind == "records":
            src = self.srcs[op["src"] % len(self.srcs)]
            tracts = tracts_of(pytrs, src)
            attrs = list(op["attrs"])
            form = op["form"]
            def want_(t, a):
                v = model_attr(t, a)
                return f"{a}: n/a" if v is _MISSING else v
            want_d = [{a: want_(t, a) for a in attrs}
                      for t in tracts]
            want_l = [[want_(t, a) for a in attrs]
                      for t in tracts]
            # the documented forms accept names grouped in (nested) lists
            g = op.get("group", 0)
            if g and len(attrs) >= 2:
                h = len(attrs) // 2
                if g == 1:
                    grouped = [attrs[:h], attrs[h:]]
                elif g == 2:
                    grouped = [[attrs[0], attrs[1:h + 1]], attrs[h + 1:]]
                else:
                    grouped = [attrs[:1], [attrs[1:h], [attrs[h:]]]]
                grouped = [x for x in grouped if x != []]
                self.bump("records_grouped_names")
                if form == "dict":
                    got, want = src.tracts_to_dict(*grouped), want_d
                elif form == "list":
                    got, want = src.tracts_to_list(grouped), want_l
                elif form == "iter_dict":
                    got, want = list(src.iter_to_dict(grouped)), want_d
                elif form == "iter_list":
                    got, want = list(src.iter_to_list(*grouped)), want_l
                elif form == "to_dict":
                    got, want = [t.to_dict(*grouped) for t in tracts], want_d
                else:
                    got, want = [t.to_list(grouped) for t in tracts], want_l
            elif form == "dict":
                got, want = src.tracts_to_dict(list(attrs)), want_d
            elif form == "list":
                got, want = src.tracts_to_list(*attrs), want_l
            elif form == "iter_dict":
                got, want = list(src.iter_to_dict(*attrs)), want_d
            elif form == "iter_list":
                got, want = list(src.iter_to_list(list(attrs))), want_l
            elif form == "to_dict":
                got, want = [t.to_dict(list(attrs)) for t in tracts], want_d
            else:
                got, want = [t.to_list(*attrs) for t in tracts], want_l
            path, _ = compare(enc(got), enc(want), exact=True)
            self.note_cells(tracts, attrs)
            self.bump("records:" + form)
            return {"ok": None, "records_diff": path}
        raise KeyError(kind)

    def close_all(self):
        """Finalisation: close whatever is still open (fault-free)."""
        out = []
        for wid in sorted(self.writers):
            w = self.writers[wid]
            if w["open"] and w["obj"] is not None:
                w["open"] = False
                self.dirty.discard(w["path"])
                try:
                    w["obj"].close()
                    out.append((wid, None))
                except Exception as e:  # noqa
                    out.append((wid, type(e).__name__))
        return out


def durable(fs):
    return {p: bytes(b) for p, b in fs.files.items()}


def run_workload(plan, srcs, fault=None, interrupt=None, twin=None,
                 fs_factory=None, fault2=None, twin2=None):
    """
    One execution.  fault-free when fault is None and interrupt is None;
    otherwise exactly one fault / interrupt is armed and the post-fault
    oracle is evaluated against ``twin`` (the fault-free result).
    """
    import warnings
    pytrs = ensure_repo_on_path()
    warnings.simplefilter("ignore")
    f = None
    if fault is not None:
        f = {"at": fault[0], "kind": fault[1],
             "errno": plan["errno"].get(fault[1])}
    fs = (fs_factory or SimFS)(plan["buffer_size"], plan["chunk_size"], f)
    R = Runner(pytrs, plan, srcs, fs)
    # finalisation is explicit, so that faults can land in it too
    ops = plan["ops"] + [{"op": "tw_close", "w": 0, "final": True},
                         {"op": "tw_close", "w": 1, "final": True}]
    outcomes, after, problems = [], [], []
    kept_exc = []
    int_holder = []
    faulted_op = None
    # an export reads its sources: it must leave them as they were (checked
    # in the fault-free run, full snapshot incl. element identities)
    src_ctx = Ctx()
    small = [j_ for j_, sp in enumerate(plan["sources"])
             if not sp.get("huge")]
    src_before = [enc(srcs[j_], src_ctx, full=True) for j_ in small] \
        if twin is None else None
    with fs.installed():
        for k, op in enumerate(ops):
            fs.op_tag = k
            R.pending = None
            fired_before = fs.fired
            try:
                if interrupt is not None and interrupt[0] == k:
                    it = Interrupter(REPO, interrupt[1])
                    int_holder.append(it)
                    with it:
                        out = R.do(k, op)
                    if not it.fired:
                        R.bump("interrupt_not_reached")
                        R.stats["line_count_of_op"] = it.count
                else:
                    out = R.do(k, op)
            except SimCrash:
                out = {"raised": "SimCrash"}
            except SimInterrupt as e:
                out = {"raised": "SimInterrupt"}
                R.bump("interrupt_fired")
                kept_exc.append(e)   # a caller's error log keeps it alive
            except Exception as e:  # noqa - outcome value
                out = {"raised": type(e).__name__,
                       "oserror": isinstance(e, OSError)}
                if twin is not None:
                    kept_exc.append(e)
            outcomes.append(out)
            after.append(durable(fs))
            newly_fired = fs.fired is not None and fired_before is None
            if twin is None:
                # ---- fault-free oracle
                src_now = [enc(srcs[j_], src_ctx, full=True) for j_ in small]
                for j_, (b_, a_) in zip(small, zip(src_before, src_now)):
                    pth, _ = compare(b_, a_, exact=True)
                    if pth is not None:
                        problems.append({
                            "oracle": "export_changed_source",
                            "path": path_class(pth),
                            "detail": {"op_index": k, "op": op, "source": j_,
                                       "path": pth,
                                       "before": excerpt(b_, pth),
                                       "after": excerpt(a_, pth)}})
                src_before = src_now
                if "raised" in out:
                    problems.append({
                        "oracle": "export_raised", "path": out["raised"],
                        "detail": {"op_index": k, "op": op, "raised": out["raised"]}})
                    # keep the model in step with what a working export
                    # would have produced, so one defect is reported once
                    if R.pending:
                        R.model[R.pending[0]] = R.pending[1]
                if out.get("records_diff"):
                    problems.append({
                        "oracle": "records", "path": out["records_diff"],
                        "detail": {"op_index": k, "op": op}})
                if "expected_ret" in out and out["ok"] != out["expected_ret"]:
                    problems.append({
                        "oracle": "write_return", "path": "ret",
                        "detail": {"op_index": k, "op": op, "ret": out["ok"],
                                   "expected": out["expected_ret"]}})
                tainted = any(pr["oracle"] == "export_raised"
                              for pr in problems)
                if out.get("closed") and "raised" not in out and not tainted:
                    p = out["closed"]
                    try:
                        diff = rows_match(R.model.get(p, []),
                                          parse_csv(fs.files.get(p, b"")))
                    except Exception as e:  # noqa
                        diff = f"unreadable csv: {type(e).__name__}: {e}"
                    if diff:
                        problems.append({
                            "oracle": "file_vs_model", "path": _cls(diff),
                            "detail": {"op_index": k, "op": op, "diff": diff,
                                       "file": bytes(fs.files.get(p, b""))[:400]
                                       .decode("utf-8", "replace")}})
                continue
            # ---- faulted run
            hit = newly_fired or out.get("raised") == "SimInterrupt"
            if not hit:
                continue
            faulted_op = k
            kindf = fs.fired[1] if newly_fired else "interrupt"
            R.bump("fault_fired:" + kindf)
            if kindf == "short":
                if "raised" in out:
                    problems.append({
                        "oracle": "short_write_not_retried", "path": "raised",
                        "detail": {"op_index": k, "op": op, "out": out}})
                    break
                faulted_op = None
                continue
            break
        # ---------------------------------------------------------------
        if twin is None:
            fin = R.close_all()
            final = durable(fs)
            for p in sorted(final):
                try:
                    diff = rows_match(R.model.get(p, []), parse_csv(final[p]))
                except Exception as e:  # noqa
                    diff = f"unreadable csv: {type(e).__name__}: {e}"
                if diff and not any(pr["oracle"] == "export_raised"
                                    for pr in problems):
                    problems.append({
                        "oracle": "file_vs_model_final", "path": _cls(diff),
                        "detail": {"path": p, "diff": diff,
                                   "file": final[p][:400].decode("utf-8", "replace")}})
            return {"outcomes": outcomes, "after": after, "final": final,
                    "trace": fs.trace, "problems": problems,
                    "stats": R.stats, "finalise": fin}
        # ---- faulted: no failing fault -> must equal the twin exactly
        if faulted_op is None:
            R.close_all()
            final = durable(fs)
            if final != twin["final"]:
                problems.append({
                    "oracle": "nonfailing_fault_changed_bytes", "path": "final",
                    "detail": {"fault": fault, "interrupt": interrupt}})
            if [_strip(o) for o in outcomes] != \
                    [_strip(o) for o in twin["outcomes"]]:
                problems.append({
                    "oracle": "nonfailing_fault_changed_outcome",
                    "path": "outcomes",
                    "detail": {"fault": fault, "got": outcomes,
                               "twin": twin["outcomes"]}})
            return {"problems": problems, "stats": R.stats}
        # ---- faulted: the op in which the fault happened
        k = faulted_op
        op, out = ops[k], outcomes[k]
        kindf = fs.fired[1] if fs.fired else "interrupt"
        # judge the op's own target file (the faulted call may have been on
        # a temporary sibling the writer renames into place)
        fpath = _op_path(R, op) or (fs.fired[3] if fs.fired else None)
        if "raised" not in out:
            problems.append({
                "oracle": "fault_swallowed", "path": kindf,
                "detail": {"op_index": k, "op": op, "fault": fault,
                           "note": "the injected error did not surface from "
                                   "the call in which it happened"}})
        elif kindf.endswith("_fail") and not out.get("oserror"):
            problems.append({
                "oracle": "fault_mistranslated", "path": kindf,
                "detail": {"op_index": k, "op": op, "out": out}})
        # the plan's next op on a faulted handle is its close
        if kindf != "crash":
            for wid in sorted(R.writers):
                w = R.writers[wid]
                if w["obj"] is not None and w["path"] == fpath and \
                        getattr(w["obj"], "file", None) is not None:
                    try:
                        w["obj"].file.close()
                    except Exception:  # noqa
                        pass
                    w["open"] = False
                    R.dirty.discard(w["path"])
        before = twin["after"][k - 1] if k > 0 else {}
        twin_after = twin["after"][k]
        # what the twin would hold once this op's data is flushed: use the
        # twin's bytes at the first later point where the file is closed
        twin_full = _twin_flushed(twin, k, fpath)
        now = durable(fs)
        d = now.get(fpath, b"")
        opened = any(t[1] == "open" and t[4] == k and t[2] == fpath and
                     (fs.fired is None or t[0] < fs.fired[0])
                     for t in fs.trace)
        truncated = opened and op.get("mode") == "w"
        opens_here = op["op"] in ("csv", "tw_new", "tw_reopen")
        if now.get(fpath) == before.get(fpath):
            pass        # the failed op left the file exactly as it was
        elif opens_here and not opened:
            # the target itself was never opened by this op before the
            # fault: either nothing happened to it at all, or it was replaced
            # atomically by the complete fault-free content (a writer that
            # renames a finished temporary file into place and is
            # interrupted afterwards)
            if now.get(fpath) != twin_after.get(fpath):
                problems.append({
                    "oracle": "file_changed_before_open", "path": kindf,
                    "detail": {"op_index": k, "op": op, "fault": fault}})
        elif not twin_full.startswith(d):
            problems.append({
                "oracle": "not_a_prefix_of_fault_free", "path": kindf,
                "detail": {"op_index": k, "op": op, "fault": fault,
                           "file": d[-200:].decode("utf-8", "replace"),
                           "twin_len": len(twin_full), "len": len(d)}})
        if (opened or not opens_here) and not truncated \
                and not d.startswith(before.get(fpath, b"")):
            problems.append({
                "oracle": "earlier_rows_damaged", "path": kindf,
                "detail": {"op_index": k, "op": op, "fault": fault,
                           "before_len": len(before.get(fpath, b"")),
                           "len": len(d)}})
        for p in sorted(set(now) | set(before)):
            if p not in PATHS:
                continue    # e.g. a temporary file of the writer's own
            if p != fpath and now.get(p) != before.get(p):
                problems.append({
                    "oracle": "other_file_touched", "path": kindf,
                    "detail": {"op_index": k, "op": op, "fault": fault,
                               "path": p}})
        # ---- the same TractWriter object is used again (non-crash faults)
        fs.fault = None
        reuse = None
        if kindf != "crash" and op["op"] in ("tw_write", "tw_close"):
            reuse = R.writers.get(op.get("w"))
            if reuse is None or reuse["obj"] is None:
                reuse = None
        if reuse is not None and fpath is not None:
            did0 = fs.repair(fpath)
            try:
                rows0 = parse_csv(fs.files.get(fpath, b""))
            except Exception:  # noqa
                rows0 = None
            src = R.srcs[0]
            tr = tracts_of(pytrs, src)
            exp = []
            plus = None
            if reuse["plus"]:
                plus = ["again", 9][:len(reuse["plus"])]
            for t in tr:
                row = [cell_spec(t, a) for a in reuse["attrs"]]
                if plus:
                    row += [["eq", str(x)] for x in plus]
                if reuse["uid"] is not None:
                    row.append(["any"])
                exp.append(row)
            try:
                # documented: a closed writer that is opened again appends
                reuse["obj"].open()
                ret = reuse["obj"].write(src, plus_cols=plus)
                reuse["obj"].close()
                reuse["open"] = False
                R.dirty.discard(fpath)
                R.bump("writer_reused_after_fault")
                if ret != len(tr):
                    problems.append({
                        "oracle": "reused_writer_return_count", "path": kindf,
                        "detail": {"op_index": k, "fault": fault, "ret": ret,
                                   "expected": len(tr)}})
                rows1 = parse_csv(fs.files.get(fpath, b""))
                if rows0 is not None:
                    if fpath not in fs.files and rows0:
                        pass
                    if rows1[:len(rows0)] != rows0:
                        problems.append({
                            "oracle": "reused_writer_destroyed_rows",
                            "path": kindf,
                            "detail": {"op_index": k, "fault": fault,
                                       "rows_before": len(rows0),
                                       "rows_after": len(rows1)}})
                    else:
                        diff = rows_match(exp, rows1[len(rows0):])
                        if diff and did0 != "deleted" and did0 != "absent":
                            problems.append({
                                "oracle": "reused_writer_append_wrong",
                                "path": _cls(diff),
                                "detail": {"op_index": k, "fault": fault,
                                           "diff": diff, "repair": did0}})
            except Exception as e:  # noqa - a broken writer may refuse; fine
                R.bump("writer_reuse_raised:" + type(e).__name__)
        # ---- repair + one recovery op (progress once faults stop) -- or,
        # with ``fault2``, a SECOND fault inside that recovery op, another
        # repair, and then the recovery that must finally succeed
        extra = {}
        if fpath is not None:
            attrs = op.get("attrs") or next(
                (w["attrs"] for w in R.writers.values()
                 if w["path"] == fpath), ["trs", "desc"])
            src = R.srcs[0]
            tr = tracts_of(pytrs, src)

            def recover(variant):
                if variant % 2 == 0:
                    src.tracts_to_csv(attrs, fpath, "a")
                else:
                    w2 = R.TW(attrs, fpath, "a")
                    try:
                        w2.write(src)
                    finally:
                        # a caller's ``finally: writer.close()``
                        if w2.file is not None:
                            w2.close()

            def expected_rows():
                exp_ = []
                if fpath not in fs.files:
                    exp_.append(header_spec(pytrs, attrs, None, None, None))
                return exp_ + [[cell_spec(t, a) for a in attrs] for t in tr]

            def check_append(rows_before, exp_, tag, did_):
                rows_after = parse_csv(fs.files.get(fpath, b""))
                if rows_before is None:
                    return
                if rows_after[:len(rows_before)] != rows_before:
                    problems.append({
                        "oracle": tag + "_rewrote_old_rows", "path": kindf,
                        "detail": {"op_index": k, "fault": fault,
                                   "fault2": fault2}})
                    return
                diff = rows_match(exp_, rows_after[len(rows_before):])
                if diff:
                    problems.append({
                        "oracle": tag + "_append_wrong", "path": _cls(diff),
                        "detail": {"op_index": k, "fault": fault,
                                   "fault2": fault2, "diff": diff,
                                   "repair": did_}})

            did = fs.repair(fpath)
            R.bump("repair:" + did)
            try:
                rows_before = parse_csv(fs.files.get(fpath, b""))
            except Exception:  # noqa
                rows_before = None
            rec_before = bytes(fs.files.get(fpath, b"")) \
                if fpath in fs.files else None
            expect = expected_rows()
            fs.calls, fs.trace, fs.fired = 0, [], None
            fs.op_tag = "recovery"
            if fault2 is not None:
                fs.fault = {"at": fault2[0], "kind": fault2[1],
                            "errno": plan["errno"].get(fault2[1])}
            rec_out = None
            try:
                recover(k)
            except SimCrash:
                rec_out = "SimCrash"
            except Exception as e:  # noqa
                rec_out = type(e).__name__
                rec_os = isinstance(e, OSError)
            if fault2 is None:
                if rec_out is not None:
                    problems.append({
                        "oracle": "recovery_raised", "path": rec_out,
                        "detail": {"op_index": k, "fault": fault,
                                   "raised": rec_out, "repair": did}})
                else:
                    try:
                        check_append(rows_before, expect, "recovery", did)
                        R.bump("recovered")
                    except Exception as e:  # noqa
                        problems.append({
                            "oracle": "recovery_unreadable",
                            "path": type(e).__name__,
                            "detail": {"op_index": k, "fault": fault}})
                extra = {"rec_trace": [(t[0], t[1]) for t in fs.trace],
                         "rec_after": bytes(fs.files.get(fpath, b""))
                         if fpath in fs.files else None,
                         "rec_before": rec_before, "rec_path": fpath}
            elif fs.fired is not None:
                # ---- the second fault fired inside the recovery op
                kind2 = fs.fired[1]
                R.bump("second_fault_fired:" + kind2)
                now2 = bytes(fs.files.get(fpath, b"")) \
                    if fpath in fs.files else None
                want_after = twin2["rec_after"]
                if kind2 == "short":
                    if rec_out is not None or now2 != want_after:
                        problems.append({
                            "oracle": "second_short_write_not_retried",
                            "path": kind2,
                            "detail": {"fault": fault, "fault2": fault2,
                                       "raised": rec_out}})
                else:
                    if rec_out is None:
                        problems.append({
                            "oracle": "second_fault_swallowed", "path": kind2,
                            "detail": {"op_index": k, "fault": fault,
                                       "fault2": fault2}})
                    d2 = now2 or b""
                    b2 = rec_before or b""
                    unchanged = now2 == rec_before
                    atomic = now2 == want_after
                    if not (unchanged or atomic or (
                            (want_after or b"").startswith(d2)
                            and d2.startswith(b2))):
                        problems.append({
                            "oracle": "second_fault_damaged_file",
                            "path": kind2,
                            "detail": {"op_index": k, "fault": fault,
                                       "fault2": fault2, "len": len(d2),
                                       "before": len(b2),
                                       "want": len(want_after or b"")}})
                    # repair again; now the recovery must go through
                    fs.fault = None
                    did2 = fs.repair(fpath)
                    try:
                        rows2 = parse_csv(fs.files.get(fpath, b""))
                    except Exception:  # noqa
                        rows2 = None
                    exp2 = expected_rows()
                    try:
                        recover(k + 1)
                        check_append(rows2, exp2, "third_recovery", did2)
                        R.bump("recovered_after_two_faults")
                    except Exception as e:  # noqa
                        problems.append({
                            "oracle": "third_recovery_raised",
                            "path": type(e).__name__,
                            "detail": {"op_index": k, "fault": fault,
                                       "fault2": fault2}})
        # The caller's error log finally lets go of the exception (and with
        # it of every frame and file object the traceback kept alive).
        # Whatever finalisers run now, the files must not change any more
        # (crashed runs excepted: their handles are fenced anyway).
        # Only for tracts_to_csv: that call owns its handle from open to
        # close (a `with` block); a TractWriter's handle lives as long as the
        # writer object, and a constructor cut short by an interrupt leaves
        # an object nobody can close -- true of any Python class, not a
        # defect of this one (the first version of this oracle flagged that
        # on the unchanged tree: a false alarm, corrected).
        # Not when the interrupt landed on a `with` header line: CPython
        # reports that line again when the block ends, *before* it calls
        # __exit__, and an asynchronous exception arriving in that gap skips
        # __exit__ for any program (CPython issue 29988) -- seen once on the
        # unchanged tree, a false alarm of the first version, corrected.
        # ... nor when it landed while the writer was still ACQUIRING its
        # handle (constructor / __enter__ / open of a writer object that the
        # `with` statement or the caller has not received yet): the same
        # unprotectable gap, only wider (soundness round: a tracts_to_csv
        # rebuilt on `with TractWriter(...)` was flagged for interrupts
        # inside TractWriter.__init__).
        on_with_header = False
        if int_holder and int_holder[0].frame_line is not None:
            on_with_header = (
                int_holder[0].frame_line.lstrip().startswith("with ")
                or any(fn in (
                    "__init__", "__enter__", "__new__", "open",
                    # ... or already RELEASING it (a context manager written
                    # in Python cannot protect its own __exit__ / close)
                    "__exit__", "close", "__del__")
                    for fn in int_holder[0].frame_stack)
                # ... or on the `try:` line that follows an explicit open(),
                # or inside a `finally:` / `except` clause (third soundness
                # round: `file = open(..); try: ..; finally: file.close()`
                # was flagged for an interrupt on the `file.close()` line)
                or any(in_unprotectable_position(fn_, ln_)
                       for fn_, ln_ in int_holder[0].frame_positions))
        if kept_exc and kindf != "crash" and op["op"] == "csv" \
                and not on_with_header:
            import gc
            snap = durable(fs)
            kept_exc.clear()
            e = None  # noqa
            gc.collect()
            if durable(fs) != snap:
                problems.append({
                    "oracle": "late_finaliser_changed_file", "path": kindf,
                    "detail": {"op_index": k, "fault": fault,
                               "interrupt": interrupt}})
    res = {"problems": problems, "stats": R.stats}
    res.update(extra)
    return res


def _strip(o):
    return {k: v for k, v in o.items() if k not in ("oserror",)}


def _cls(diff):
    import re
    return re.sub(r"\d+", "#", diff.split(":")[0])


def _op_path(R, op):
    if "path" in op:
        return op["path"]
    w = R.writers.get(op.get("w"))
    return w["path"] if w else None


def _twin_flushed(twin, k, path):
    """Twin's bytes for ``path`` once op k's contribution is fully flushed."""
    if path is None:
        return b""
    # the file's content can only grow until the next truncating open; find
    # the longest snapshot from op k up to (not including) the next op that
    # truncates this path -- buffered data of op k appears there at the latest
    # when the handle is closed (finalisation closes everything).
    best = twin["after"][k].get(path, b"")
    for j in range(k + 1, len(twin["after"])):
        cur = twin["after"][j].get(path, b"")
        if not cur.startswith(twin["after"][j - 1].get(path, b"")):
            return best
        best = cur
    fin = twin["final"].get(path, b"")
    if fin.startswith(best):
        best = fin
    return best


# --------------------------------------------------------------------------
# driver: parse sources once, then fault-free twin + every fault
# --------------------------------------------------------------------------

MAX_FAULT_RUNS = 1500


def _driver(plan, tier):
    pytrs = ensure_repo_on_path()
    srcs = build_sources(pytrs, plan["sources"])
    twin = fork_call(run_workload, (plan, srcs, None, None, None), timeout=60)
    failures = []
    stats = dict(twin["stats"])

    def bump(k, v=1):
        stats[k] = stats.get(k, 0) + v

    for pr in twin["problems"]:
        failures.append({"oracle": pr["oracle"], "path": pr["path"],
                         "path_class": path_class(str(pr["path"])),
                         "detail": pr["detail"], "phase": "fault_free"})
    execs = 1
    points = []
    for (i, kind, path, nbytes, tag) in twin["trace"]:
        for fk in FAULT_KINDS[kind]:
            points.append((i, fk))
    bump("fault_points", len(points))
    bump("raw_io_calls", len(twin["trace"]))
    exhaustive = True
    max_runs = MAX_FAULT_RUNS
    huge = any(s_.get("huge") for s_ in plan["sources"])
    if huge:
        # every re-run writes hundreds of rows: the fault-free oracle and a
        # handful of fault points only, no interrupts, no second faults
        max_runs = 6
        plan = dict(plan, interrupts=[], double=[], int_sweep=None)
        bump("workloads_with_a_huge_source")
    if len(points) > max_runs:
        stride = len(points) / max_runs
        points = [points[int(j * stride)] for j in range(max_runs)]
        exhaustive = False
        bump("workloads_with_sampled_fault_points")
    fault_free_clean = not failures
    singles = {}
    if fault_free_clean:
        for pt in points:
            res = fork_call(run_workload, (plan, srcs, pt, None, twin),
                            timeout=60)
            execs += 1
            bump("fault_runs")
            if res.get("rec_trace") and not res["problems"] \
                    and pt[1] != "short":
                singles[pt] = res
            for k2, v in res["stats"].items():
                if k2.startswith(("fault_fired", "repair", "recovered",
                                  "writer_reuse")):
                    bump(k2, v)
            for pr in res["problems"]:
                failures.append({
                    "oracle": pr["oracle"], "path": pr["path"],
                    "path_class": path_class(str(pr["path"])),
                    "detail": dict(pr["detail"], fault=list(pt)),
                    "phase": "faulted"})
            if len(failures) > 20:
                break
        # ---- fault sequences: a second fault inside the recovery op
        cand = sorted(singles)
        chosen = []
        for sel in plan.get("double", []):
            if cand:
                chosen.append(cand[sel % len(cand)])
        for pt in sorted(set(chosen)):
            s1 = singles[pt]
            for (ci, ckind) in s1["rec_trace"]:
                for fk in FAULT_KINDS[ckind]:
                    res = fork_call(
                        run_workload,
                        (plan, srcs, pt, None, twin, None, (ci, fk), s1),
                        timeout=60)
                    execs += 1
                    bump("double_fault_runs")
                    for k2, v in res["stats"].items():
                        if k2.startswith(("second_fault_fired",
                                          "recovered_after_two")):
                            bump(k2, v)
                    for pr in res["problems"]:
                        failures.append({
                            "oracle": pr["oracle"], "path": pr["path"],
                            "path_class": path_class(str(pr["path"])),
                            "detail": dict(pr["detail"], fault=list(pt),
                                           fault2=[ci, fk]),
                            "phase": "double_fault"})
                if len(failures) > 20:
                    break
        # ---- interrupt sweep: every traced line of one op (a few workloads)
        sweep = []
        if plan.get("int_sweep") is not None:
            k_ = plan["int_sweep"] % (len(plan["ops"]) + 2)
            cnt = fork_call(run_workload, (plan, srcs, None, [k_, 10 ** 9], twin),
                            timeout=60)["stats"].get("line_count_of_op", 0)
            stride = max(1, -(-cnt // 150))
            sweep = [[k_, n_] for n_ in range(1, cnt + 1, stride)]
            bump("interrupt_sweeps")
            bump("interrupt_sweep_positions", len(sweep))
        for it in list(plan["interrupts"]) + sweep:
            if it[0] >= len(plan["ops"]) + 2:
                continue
            res = fork_call(run_workload, (plan, srcs, None, it, twin),
                            timeout=60)
            execs += 1
            bump("interrupt_runs")
            for k2, v in res["stats"].items():
                if k2.startswith(("fault_fired", "interrupt", "repair",
                                  "recovered", "writer_reuse")):
                    bump(k2, v)
            for pr in res["problems"]:
                failures.append({
                    "oracle": pr["oracle"], "path": pr["path"],
                    "path_class": path_class(str(pr["path"])),
                    "detail": dict(pr["detail"], interrupt=list(it)),
                    "phase": "interrupt"})
    ops = plan["ops"]
    nontrivial = (
        any(k in stats for k in ("append_existing_no_header",
                                 "reopen_after_close"))
        or any(stats.get(k) for k in ("cell:list_nonempty", "cell:int_list",
                                      "cell:tuple_list", "cell:dict_nonempty")))
    log = {"outcomes": twin["outcomes"],
           "final": {p: digest(b.decode("utf-8", "replace"))
                     for p, b in twin["final"].items()},
           "n_trace": len(twin["trace"]), "failures": len(failures)}
    shape = ",".join(o["op"] + (o.get("mode") or "") for o in ops) + \
        f"|b{plan['buffer_size']}c{plan['chunk_size']}"
    if not exhaustive:
        bump("non_exhaustive_workloads")
    return {"failures": failures[:12], "stats": stats,
            "nontrivial": nontrivial, "steps": len(ops) * execs,
            "execs": execs, "log": digest(log), "shape": shape}


def check_plan(plan):
    return fork_call(_driver, (plan, None), timeout=600)


# --------------------------------------------------------------------------
# shrinking
# --------------------------------------------------------------------------

def shrink(plan):
    ops = plan["ops"]
    n = len(ops)
    size = n // 2
    while size >= 1:
        for s in range(0, n - size + 1):
            if n - size >= 1:
                p2 = copy.deepcopy(plan)
                p2["ops"] = ops[:s] + ops[s + size:]
                yield p2
        size //= 2
    for k, op in enumerate(ops):
        if "attrs" in op and len(op["attrs"]) > 1:
            for j in range(len(op["attrs"])):
                p2 = copy.deepcopy(plan)
                p2["ops"][k]["attrs"] = op["attrs"][:j] + op["attrs"][j + 1:]
                if isinstance(op.get("nice"), list):
                    p2["ops"][k]["nice"] = None
                yield p2
        if op.get("nice") is not None:
            p2 = copy.deepcopy(plan)
            p2["ops"][k]["nice"] = None
            yield p2
        if op.get("plus"):
            p2 = copy.deepcopy(plan)
            p2["ops"][k]["plus"] = None
            yield p2
        if op.get("uid") is not None:
            p2 = copy.deepcopy(plan)
            p2["ops"][k]["uid"] = None
            yield p2
        if isinstance(op.get("src"), list) and len(op["src"]) > 1:
            p2 = copy.deepcopy(plan)
            p2["ops"][k]["src"] = op["src"][0]
            yield p2
        if isinstance(op.get("src"), dict):
            shape = op["src"]["shape"]
            p2 = copy.deepcopy(plan)          # plain selection instead
            p2["ops"][k]["src"] = 0
            yield p2
            for j in range(len(shape["seq"])):
                if len(shape["seq"]) > 1:     # drop one item
                    p2 = copy.deepcopy(plan)
                    del p2["ops"][k]["src"]["shape"]["seq"][j]
                    yield p2
                if "seq" in shape["seq"][j]:  # flatten one inner sequence
                    p2 = copy.deepcopy(plan)
                    inner = p2["ops"][k]["src"]["shape"]["seq"][j]["seq"]
                    p2["ops"][k]["src"]["shape"]["seq"][j:j + 1] = inner
                    yield p2
            if shape["as"] != "list":
                p2 = copy.deepcopy(plan)
                p2["ops"][k]["src"]["shape"]["as"] = "list"
                yield p2
    for j, s in enumerate(plan["sources"]):
        simple = {"kind": "desc", "text": "T154N-R97W Sec 14: Lots 1, 1, NE/4",
                  "config": None, "parse_qq": True, "source": None}
        if s != simple:
            p2 = copy.deepcopy(plan)
            p2["sources"][j] = simple
            yield p2
    if len(plan["sources"]) > 1:
        p2 = copy.deepcopy(plan)
        p2["sources"] = plan["sources"][:1]
        yield p2
    for key in ("buffer_size", "chunk_size"):
        if plan[key] != 8192:
            p2 = copy.deepcopy(plan)
            p2[key] = 8192
            yield p2
    if plan["interrupts"]:
        p2 = copy.deepcopy(plan)
        p2["interrupts"] = []
        yield p2


def describe(plan):
    return ",".join(o["op"] for o in plan["ops"])


RULE = (
    "Each workload (random.Random(derive(VERIF_SEED,'C19',i))) has 2-4 parsed "
    "sources (generated descriptions with lots, acreages, flags with context, "
    "multi-line and quoted text, error/undefined TRS, unparsed tracts), <= 2 "
    "paths on the simulated FS, <= 2 TractWriters (one open per path), 1-8 ops "
    "from {tracts_to_csv(attrs, path, 'w'|'a', nice_headers in {None, False, "
    "True, list, dict}) via PLSSDesc or TractList, TractWriter(new / write one "
    "source, several, or None / close / reopen, plus_cols, uid), the six "
    "record forms}, attrs a random ordered subset of the 27 Tract.ATTRIBUTES "
    "(+ sometimes an unknown name), and per-run I/O knobs buffer_size, "
    "_CHUNK_SIZE in {1,16,64,8192}. The workload runs once fault-free "
    "(checked against an independent row model) and then once per (raw I/O "
    "call index x applicable fault kind in {open_fail, write_fail, "
    "short, close_fail, crash; rename/remove/fsync/truncate kinds if the code "
    "under test uses those calls}) plus 6 line-level interrupts, and for up to "
    "two first-fault points a SECOND fault at every raw call of the recovery op, "
    "each in its own fork taken after the sources were parsed. evaluations = "
    "workloads; a workload is NON-TRIVIAL iff it appended to an existing "
    "file, reopened a writer, or wrote a non-empty list-, int-list-, "
    "tuple-list- or dict-valued cell. distinct = distinct plan digests among "
    "those. Fault positions are enumerated exhaustively per workload (capped "
    "at 1500 re-runs, reported when the cap is hit); workloads are sampled."
)
ASSUMPTIONS = [
    "CPython's csv module (writer and reader), io.TextIOWrapper and "
    "io.BufferedWriter are real and trusted; only the raw file object and "
    "os.stat are stubs",
    "separator characters in joined cells are not pinned: list/dict contents "
    "must occur in order and the remainder of the cell may only consist of "
    "', ;:|/=' and blanks",
    "after a fault has fired on a handle the next operation on it is its "
    "close (CPython's TextIOWrapper drops its pending chunk when the "
    "underlying write raises); after a crash all writer objects are gone",
    "two writers never have the same path open at once",
    "header text is pinned only where the caller asked for it (attribute "
    "names by default, Tract.ATTRIBUTES values for True, the given list or "
    "dict otherwise, documented 'UID' column)",
]
COMPONENTS = {
    "real": ["all of pytrs incl. pytrs.tractwriter", "csv", "io.TextIOWrapper",
             "io.BufferedWriter", "pathlib.Path"],
    "stubbed": ["raw file object (SimRaw: write/seek/truncate/close)",
                "builtins.open / io.open / os.open / os.fdopen dispatch for "
                "paths under /simfs/ and the fake descriptors",
                "os.stat / lstat / access / listdir, os.rename / replace / "
                "remove / unlink / fsync / write / close for those"],
}
