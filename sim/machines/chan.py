"""
C13 -- `chan`: configuration channels and precedence.

A draw fixes a class, a text, a setting assignment sigma (and, for the
precedence family, an older conflicting assignment on the *same* names, and
for the master family MasterConfig values).  ``build(draw)`` turns it into a
set of named histories that must be pairwise equivalent:

  channels   A  create(config=sigma)
             B  create(wait); .config = sigma; parse()
             B2 the same with sigma split over two assignments
             C  create(wait); parse(**sigma)            (+ C- with commit=False)
             I  create(**sigma) for the settings that are init keywords
             D* tract-level settings through parse_tracts / config_tracts
  precedence P  create(config=old); parse(**sigma)   ==  create(config=sigma)
             Q  create(config=old); .config = sigma; parse()  == ...
             R  parse_tracts(config=old, **sigma)    ==  create(config=sigma)
  master     M  MasterConfig=d; create()             ==  create(config=d)
             M' MasterConfig=d; create(config=d')    ==  create(config=d' over d)
             M" create(wait) under d1; MasterConfig=d2; parse() == all under d2
  reject     unknown setting names -> ValueError (and only that)
  roundtrip  Config(text) -> text -> Config : attribute-wise equal, text a
             fixed point; from_dict / from_kwargs agree      (per-step invariant)

Each history runs in its own fork of the pristine zygote; results-only
snapshots are compared (flag lists as multisets).  Exceptions are outcome
values.  A channel a signature does not offer is skipped, never a failure.
"""

import copy

from .. import corpus, opgen
from ..engine import fork_call, ensure_repo_on_path
from ..snapshot import enc, compare, path_class, digest, excerpt

PROP = "C13"
NAME = "chan"
LEVEL = "exploration"

DESC_LEVEL = ("default_ns", "default_ew", "layout", "sec_colon_required",
              "sec_colon_cautious", "ocr_scrub", "segment", "sec_within")
TRACT_LEVEL = ("clean_qq", "suppress_lot_divs", "qq_depth", "qq_depth_min",
               "qq_depth_max", "break_halves")
INIT_KW = {"PLSSDesc": ("layout", "parse_qq", "wait_to_parse"),
           "Tract": ("parse_qq",)}
FAMILIES = ("channels", "precedence", "master", "reject", "roundtrip",
            "wait", "twprgesec", "displace")

BOGUS_NAMES = ("config_name.abc", "config_text", "from_dict", "decompile_to_text",
               "_CONFIG_ATTRIBUTES", "config_name", "from_kwargs.1",
               "bogus", "clean_q", "qq_depth_mid.2", "parse-qq", "TRS_DESC",
               "x", "cleanqq", "default_ns2.n", "sec_colon", "qq_depth_min_.3",
               "segmented", "copyall", "north", "ocr_scrub_=True", "1")


# --------------------------------------------------------------------------
# draw generation
# --------------------------------------------------------------------------

def _other_value(rng, name, val):
    for _ in range(20):
        v = opgen.setting_value(rng, name)
        if v != val and str(v).lower() != str(val).lower():
            return v
    if isinstance(val, bool):
        return not val
    return None


def gen_plan(rng):
    fam = rng.choice(("channels", "channels", "channels", "precedence",
                      "precedence", "master", "master", "reject", "wait",
                      "twprgesec", "displace"))
    cls = "PLSSDesc" if rng.random() < 0.6 else "Tract"
    none_extra = rng.choice(("parse_qq", "clean_qq", "wait_to_parse",
                             "segment", "ocr_scrub", "break_halves",
                             "suppress_lot_divs", "sec_within", None))
    draw = {"machine": NAME, "family": fam, "cls": cls, "sigma": {},
            "none_extra": none_extra,
            "old": {}, "mc": None, "mc2": None, "text": None,
            "trs": "154n97w14", "tw": None, "bogus": None,
            "sep": rng.choice((",", ", ", ";", " , "))}
    if fam in ("channels", "precedence"):
        if cls == "PLSSDesc":
            names = DESC_LEVEL + TRACT_LEVEL + ("parse_qq",)
        else:
            names = TRACT_LEVEL
        names = [n for n in names]
        sigma = opgen.gen_sigma(rng, names, lo=1, hi=3)
        if cls == "PLSSDesc" and rng.random() < 0.12:
            # documented interplays get dedicated draws
            sigma = rng.choice((
                {"sec_colon_required": rng.random() < 0.5,
                 "sec_colon_cautious": rng.random() < 0.7},
                {"layout": "copy_all", "segment": True},
                {"parse_qq": rng.random() < 0.7,
                 "clean_qq": True},
                {"default_ns": rng.choice(("s", "S")),
                 "default_ew": rng.choice(("e", "E")), "ocr_scrub": True},
            ))
        if "qq_depth" in sigma and rng.random() < 0.5:
            sigma.pop("qq_depth_min", None)
            sigma.pop("qq_depth_max", None)
        if sigma.get("sec_colon_required") is True:
            sigma.pop("sec_colon_cautious", None)
        draw["sigma"] = sigma
        focus = rng.choice(sorted(sigma))
        if rng.random() < 0.75:
            draw["text"] = corpus.witness(
                rng, corpus.WITNESS if cls == "PLSSDesc"
                else corpus.TRACT_WITNESS, focus)
        else:
            draw["text"] = corpus.gen_desc(rng) if cls == "PLSSDesc" \
                else corpus.gen_block(rng)
        if draw["text"] and rng.random() < 0.12:
            # what cleanup_desc() strips from the end of a description block
            draw["text"] += rng.choice((";", ",", " and", " of the", ":", " -"))
        if "layout" in sigma and rng.random() < 0.35:
            sigma["layout"] = "copy_all"
        if fam == "precedence":
            old = {}
            for n, v in sigma.items():
                ov = _other_value(rng, n, v)
                if ov is not None:
                    old[n] = ov
            if "qq_depth_min" in old and "qq_depth_max" in old and \
                    old["qq_depth_max"] < old["qq_depth_min"]:
                old["qq_depth_max"] = old["qq_depth_min"]
            draw["old"] = old
    elif fam == "displace":
        # the documented rule: a qq_depth_min / qq_depth_max KEYWORD displaces
        # a configured qq_depth (the keyword's companion falls back to the
        # configured min / max)
        draw["old"] = {"qq_depth": rng.choice((1, 2, 3))}
        if rng.random() < 0.4:
            draw["old"]["qq_depth_min"] = rng.choice((1, 2))
        if rng.random() < 0.4:
            draw["old"]["qq_depth_max"] = rng.choice((2, 3))
        sig = {}
        r_ = rng.random()
        if r_ < 0.45:
            sig["qq_depth_max"] = rng.choice((2, 3, 4))
        elif r_ < 0.9:
            sig["qq_depth_min"] = rng.choice((1, 2, 3))
        else:
            sig = {"qq_depth_min": rng.choice((1, 2)),
                   "qq_depth_max": rng.choice((3, 4))}
        draw["sigma"] = sig
        draw["text"] = (corpus.WITNESS if cls == "PLSSDesc"
                        else corpus.TRACT_WITNESS)[
            rng.choice(("qq_depth", "qq_depth_min", "qq_depth_max"))]
    elif fam == "master":
        draw["mc"] = {"ns": rng.choice(("n", "s", "s", "S")),
                      "ew": rng.choice(("e", "w", "e", "E"))}
        draw["mc2"] = {"ns": rng.choice(("n", "s")),
                       "ew": rng.choice(("e", "w"))}
        sig = {}
        if rng.random() < 0.5:
            sig["default_ns"] = rng.choice(("n", "s"))
        if rng.random() < 0.5:
            sig["default_ew"] = rng.choice(("e", "w"))
        draw["sigma"] = sig
        draw["cls"] = rng.choice(("PLSSDesc", "PLSSDesc", "Tract", "TRS",
                                  "find_twprge"))
        t, r = rng.randint(1, 160), rng.randint(1, 105)
        style = rng.choice((4, 4, 5, 6, 0, 10, 11))
        tr = corpus.fmt_twprge(rng, (t, rng.choice("NS"), r, rng.choice("EW")), style)
        draw["text"] = f"{tr} Sec {rng.randint(1, 36)}: {corpus.gen_block(rng)}"
        draw["tw"] = _gen_tw(rng)
    elif fam == "reject":
        good = opgen.gen_sigma(rng, opgen.ALL_SETTINGS, lo=0, hi=2)
        good.pop("wait_to_parse", None)
        draw["sigma"] = good
        draw["bogus"] = rng.choice(BOGUS_NAMES)
        draw["text"] = corpus.gen_desc(rng) if cls == "PLSSDesc" \
            else corpus.gen_block(rng)
    elif fam == "wait":
        draw["cls"] = "PLSSDesc"
        draw["sigma"] = {"wait_to_parse": rng.random() < 0.8}
        draw["old"] = {"wait_to_parse": rng.random() < 0.5}
        draw["text"] = corpus.gen_desc(rng)
    elif fam == "twprgesec":
        draw["cls"] = "Tract"
        sig = {}
        if rng.random() < 0.7:
            sig["default_ns"] = rng.choice(("n", "s", "s"))
        if rng.random() < 0.7:
            sig["default_ew"] = rng.choice(("e", "w", "e"))
        if rng.random() < 0.5 or not sig:
            sig["ocr_scrub"] = rng.random() < 0.6
        draw["sigma"] = sig
        if rng.random() < 0.6:
            oldv = {}
            for n_, v_ in sig.items():
                if n_ == "ocr_scrub":
                    oldv[n_] = not v_
                else:
                    ov = _other_value(rng, n_, v_)
                    if ov is not None:
                        oldv[n_] = ov
            draw["old"] = oldv
        draw["text"] = corpus.gen_block(rng)
        draw["tw"] = _gen_tw(rng, ocr="ocr_scrub" in sig)
    return draw


def _gen_tw(rng, ocr=False):
    t, r, s = rng.randint(1, 160), rng.randint(1, 105), rng.randint(1, 36)
    forms = [[t, r, s], [str(t), str(r), str(s)], [f"{t}n", r, s],
             [t, f"{r}e", str(s)], [None, r, s], [t, r, None]]
    if ocr:
        forms += [[str(t).replace("1", "I").replace("0", "O"),
                   str(r).replace("1", "l").replace("5", "S"), str(s)]] * 3
    return rng.choice(forms)


# --------------------------------------------------------------------------
# build: draw -> named histories + pairs
# --------------------------------------------------------------------------

def txt(sigma, sep=","):
    return sep.join(opgen.setting_to_text(k, v) for k, v in sigma.items())


def txt_eq(sigma, sep=","):
    """The documented alternative spelling 'attribute=value'."""
    parts = []
    for k, v in sigma.items():
        if k in ("default_ns", "default_ew"):
            parts.append(f"{k}={v}")
        elif k == "layout":
            parts.append(f"layout={v}")
        else:
            parts.append(f"{k}={v}")
    return sep.join(parts)


def _ordered(d):
    """Canonical (generator-independent) order of a setting assignment."""
    order = {n: i for i, n in enumerate(opgen.ALL_SETTINGS)}
    return {k: d[k] for k in sorted(d, key=lambda n: (order.get(n, 99), n))}


def build(draw):
    fam, cls = draw["family"], draw["cls"]
    sigma, old = _ordered(draw["sigma"]), _ordered(draw["old"])
    text, sep = draw["text"], draw["sep"]
    H, pairs = {}, []
    # qq_depth given together with qq_depth_min/max is only well-defined when
    # all of them come from the SAME source (documented: a min/max *keyword*
    # displaces a configured qq_depth), so such draws skip the families that
    # spread one assignment over a config string and keywords.
    depth_mix = "qq_depth" in sigma and (
        "qq_depth_min" in sigma or "qq_depth_max" in sigma)
    none_extra = draw.get("none_extra")

    def desc(config=None, **kw):
        return {"op": "create", "cls": "PLSSDesc", "text": text,
                "config": config, "kw": kw}

    def tract(config=None, **kw):
        return {"op": "create", "cls": "Tract", "text": text,
                "trs": draw["trs"], "config": config, "kw": kw}

    def parse(commit=True, **kw):
        return {"op": "parse", "commit": commit, "kw": kw}

    def setc(c):
        return {"op": "set_config", "config": c}

    if fam == "channels" and cls == "PLSSDesc":
        base = {}
        if any(n in TRACT_LEVEL for n in sigma) and "parse_qq" not in sigma:
            base["parse_qq"] = True
        s_text = txt(sigma, sep)
        H["Z"] = [desc(None, **base)]
        H["A"] = [desc(s_text, **base)]
        H["A="] = [desc(txt_eq(sigma, sep), **base)]
        pairs.append(("A", "A=", "final"))
        if none_extra and none_extra not in sigma:
            H["A0"] = [desc(s_text + sep + none_extra + ".None", **base)]
            H["A0="] = [desc(none_extra + "=None" + sep + s_text, **base)]
            pairs += [("A", "A0", "final"), ("A", "A0=", "final")]
        H["B"] = [desc(None, wait_to_parse=True, **base), setc(s_text), parse()]
        pairs.append(("A", "B", "final"))
        if len(sigma) >= 2:
            ks = list(sigma)
            s1 = {k: sigma[k] for k in ks[:1]}
            s2 = {k: sigma[k] for k in ks[1:]}
            H["B2"] = [desc(None, wait_to_parse=True, **base),
                       setc(txt(s1, sep)), setc(txt(s2, sep)), parse()]
            H["B3"] = [desc(txt(s1, sep), wait_to_parse=True, **base),
                       setc(txt(s2, sep)), parse()]
            pairs.append(("A", "B2", "final"))
            pairs.append(("A", "B3", "final"))
        if all(n in opgen.PLSS_PARSE_KW for n in sigma):
            H["C"] = [desc(None, wait_to_parse=True, **base), parse(**sigma)]
            H["C-"] = [desc(None, wait_to_parse=True, **base),
                       parse(commit=False, **sigma)]
            H["C2"] = [desc(None, **base), parse(**sigma)]
            pairs.append(("A", "C", "final"))
            pairs.append(("A", "C2", "final"))
            pairs.append(("A", "C-", "ret_vs_tracts"))
        if len(sigma) >= 2 and not depth_mix:
            ks = list(sigma)
            for tag, cut in (("X", 1), ("X'", len(ks) - 1)):
                sa = {k: sigma[k] for k in ks[:cut]}
                sb = {k: sigma[k] for k in ks[cut:]}
                for t2, (cfg_part, kw_part) in ((tag, (sa, sb)),
                                                (tag + "r", (sb, sa))):
                    if all(n in opgen.PLSS_PARSE_KW for n in kw_part):
                        H[t2] = [desc(txt(cfg_part, sep), wait_to_parse=True,
                                      **base), parse(**kw_part)]
                        H[t2 + "-"] = [desc(txt(cfg_part, sep), **base),
                                       parse(commit=False, **kw_part)]
                        pairs.append(("A", t2, "final"))
                        pairs.append(("A", t2 + "-", "ret_vs_tracts"))
        # the same settings given as a Config object instead of text
        ctext = txt(sigma, ",")
        H["Ao"] = [desc({"__cfg_text": ctext}, **base)]
        H["Ak"] = [desc({"__cfg_kwargs": dict(sigma)}, **base)]
        H["Ad"] = [desc({"__cfg_dict": dict(sigma)}, **base)]
        H["Bo"] = [desc(None, wait_to_parse=True, **base),
                   setc({"__cfg_text": ctext}), parse()]
        H["As"] = [{"op": "other_object",
                    "text": "T1N-R1W Sec 1: NE/4",
                    "config": {"__cfg_text": ctext, "shared": True}},
                   desc({"__cfg_text": ctext, "shared": True}, **base)]
        lower_ok = all(not isinstance(v, str) or v == v.lower()
                       or k == "layout" for k, v in sigma.items())
        H["Ac"] = [desc({"__cfg_copy_text": ctext}, **base)]
        pairs += [("A", "Ao", "final"), ("A", "Bo", "final"),
                  ("A", "As", "final"), ("A", "Ac", "final")]
        if lower_ok:
            H["Ack"] = [desc({"__cfg_copy_kwargs": dict(sigma)}, **base)]
            pairs += [("A", "Ak", "final"), ("A", "Ad", "final"),
                      ("A", "Ack", "final")]
        pre = {k: v for k, v in sigma.items()
               if k in ("default_ns", "default_ew", "ocr_scrub")}
        if pre and len(pre) == len(sigma):
            H["Ra"] = [desc(s_text, wait_to_parse=True),
                       {"op": "preprocess", "commit": False, "kw": {}}]
            H["Rb"] = [desc(None, wait_to_parse=True), setc(s_text),
                       {"op": "preprocess", "commit": True, "kw": {}}]
            H["Rc"] = [desc(None, wait_to_parse=True),
                       {"op": "preprocess", "commit": False, "kw": dict(pre)}]
            pairs += [("Ra", "Rb", "ret"), ("Ra", "Rc", "ret")]
            if "ocr_scrub" in pre:
                H["La"] = [desc(s_text, wait_to_parse=True),
                           {"op": "deduce_layout"}]
                H["Lb"] = [desc(None, wait_to_parse=True), setc(s_text),
                           {"op": "deduce_layout"}]
                pairs.append(("La", "Lb", "ret"))
        init = {k: v for k, v in sigma.items() if k in INIT_KW["PLSSDesc"]}
        if init:
            rest = {k: v for k, v in sigma.items() if k not in init}
            H["I"] = [desc(txt(rest, sep) or None, **dict(base, **init))]
            pairs.append(("A", "I", "final"))
        tl = {k: v for k, v in sigma.items() if k in TRACT_LEVEL}
        if tl and len(tl) == len(sigma):
            H["D"] = [desc(None, parse_qq=True),
                      {"op": "parse_tracts", "config": None, "kw": dict(tl)}]
            H["D2"] = [desc(None, parse_qq=True),
                       {"op": "config_tracts", "config": txt(tl, sep)},
                       {"op": "parse_tracts", "config": None, "kw": {}}]
            H["D3"] = [desc(None, parse_qq=True),
                       {"op": "parse_tracts", "config": txt(tl, sep), "kw": {}}]
            H["D4"] = [desc(None, wait_to_parse=True), parse(),
                       {"op": "parse_tracts", "config": None, "kw": dict(tl)}]
            for d in ("D", "D2", "D3", "D4"):
                pairs.append(("A", d, "final"))
            # ONE tract of several with the same description gets the
            # setting (its twins do not): parse_tracts() must honour each
            # tract's own configuration
            blk = corpus.TRACT_WITNESS.get(sorted(tl)[0])
            if blk:
                multi = {"op": "create", "cls": "PLSSDesc",
                         "text": "T154N-R97W Sec 14 - 16: " + blk,
                         "config": None, "kw": {"parse_qq": True}}
                H["mZ"] = [multi]
                H["mA"] = [dict(multi, config=txt(tl, sep))]
                for j_, nm in ((0, "mT0"), (1, "mT1")):
                    H[nm] = [multi,
                             {"op": "tract_set_config", "i": j_,
                              "config": txt(tl, sep)},
                             {"op": "parse_tracts", "config": None, "kw": {}}]
                pairs += [("mA", "mT0", "tract0"), ("mZ", "mT0", "tract1"),
                          ("mA", "mT1", "tract1"), ("mZ", "mT1", "tract0"),
                          ("mZ", "mT1", "tract2")]
    elif fam == "channels" and cls == "Tract":
        s_text = txt(sigma, sep)
        H["Z"] = [tract(None, parse_qq=True)]
        H["A"] = [tract(s_text, parse_qq=True)]
        H["A2"] = [tract(s_text + sep + "parse_qq")]
        H["A="] = [tract(txt_eq(sigma, sep), parse_qq=True)]
        pairs.append(("A", "A=", "final"))
        if none_extra and none_extra not in sigma:
            H["A0"] = [tract(s_text + sep + none_extra + ".None",
                             parse_qq=True)]
            pairs.append(("A", "A0", "final"))
        H["B"] = [tract(None), setc(s_text), parse()]
        H["C"] = [tract(None), parse(**sigma)]
        H["C2"] = [tract(None, parse_qq=True), parse(**sigma)]
        H["C-"] = [tract(None), parse(commit=False, **sigma)]
        pairs += [("A", "A2", "final"), ("A", "B", "final"),
                  ("A", "C", "final"), ("A", "C2", "final"),
                  ("A", "C-", "ret_vs_lots_qqs")]
        ctext = txt(sigma, ",")
        H["Ao"] = [tract({"__cfg_text": ctext}, parse_qq=True)]
        H["Ak"] = [tract({"__cfg_kwargs": dict(sigma)}, parse_qq=True)]
        H["Bo"] = [tract(None), setc({"__cfg_text": ctext}), parse()]
        H["Ack"] = [tract({"__cfg_copy_kwargs": dict(sigma)}, parse_qq=True)]
        pairs += [("A", "Ao", "final"), ("A", "Ak", "final"),
                  ("A", "Bo", "final"), ("A", "Ack", "final")]
        shared_cfg = {"__cfg_text": ctext + ",parse_qq", "shared": True}
        H["As"] = [{"op": "other_tract", "config": shared_cfg,
                    "kw": {"parse_qq": False}},
                   tract(shared_cfg)]
        pairs.append(("A2", "As", "final"))
        if len(sigma) >= 2:
            ks = list(sigma)
            s1 = {k: sigma[k] for k in ks[:1]}
            s2 = {k: sigma[k] for k in ks[1:]}
            H["B2"] = [tract(txt(s1, sep)), setc(txt(s2, sep)), parse()]
            pairs.append(("A", "B2", "final"))
            if not depth_mix:
                H["X"] = [tract(txt(s1, sep)), parse(**s2)]
                H["Xr"] = [tract(txt(s2, sep)), parse(**s1)]
                H["X-"] = [tract(txt(s1, sep), parse_qq=True),
                           parse(commit=False, **s2)]
                pairs += [("A", "X", "final"), ("A", "Xr", "final"),
                          ("A", "X-", "ret_vs_lots_qqs")]
    elif fam == "precedence" and cls == "PLSSDesc":
        base = {}
        if any(n in TRACT_LEVEL for n in sigma) and "parse_qq" not in sigma:
            base["parse_qq"] = True
        H["Z"] = [desc(txt(old, sep), **base)]
        H["A"] = [desc(txt(sigma, sep), **base)]
        if all(n in opgen.PLSS_PARSE_KW for n in sigma):
            H["P"] = [desc(txt(old, sep), **base), parse(**sigma)]
            H["P2"] = [desc(None, wait_to_parse=True, **base),
                       setc(txt(old, sep)), parse(**sigma)]
            H["P-"] = [desc(txt(old, sep), **base),
                       parse(commit=False, **sigma)]
            pairs += [("A", "P", "final"), ("A", "P2", "final"),
                      ("A", "P-", "ret_vs_tracts")]
        H["Q"] = [desc(txt(old, sep), wait_to_parse=True, **base),
                  setc(txt(sigma, sep)), parse()]
        pairs.append(("A", "Q", "final"))
        # three sources in a row: config at init, a later assignment that
        # changes it back and forth, and (where it exists) the keyword
        H["Q3"] = [desc(txt(sigma, sep), wait_to_parse=True, **base),
                   setc(txt(old, sep)), setc(txt(sigma, sep)), parse()]
        pairs.append(("A", "Q3", "final"))
        if all(n in opgen.PLSS_PARSE_KW for n in sigma):
            H["P3"] = [desc(txt(sigma, sep), wait_to_parse=True, **base),
                       setc(txt(old, sep)), parse(**sigma)]
            H["P3-"] = [desc(txt(old, sep), **base), setc(txt(old, sep)),
                        parse(commit=False, **sigma)]
            pairs += [("A", "P3", "final"), ("A", "P3-", "ret_vs_tracts")]
        init3 = {k: v for k, v in sigma.items() if k in INIT_KW["PLSSDesc"]}
        if init3 and len(init3) == len(sigma):
            # init keyword over the config string of the same init
            H["I3"] = [desc(txt(old, sep), **dict(base, **init3))]
            pairs.append(("A", "I3", "final"))
            if "wait_to_parse" not in init3:
                noop = "qq_depth_min.2" if "qq_depth_min" not in sigma \
                    else "break_halves.False"
                H["I3b"] = [desc(txt(old, sep), wait_to_parse=True,
                                 **dict(base, **init3)),
                            setc(noop), parse()]
                H["I3c"] = [desc(txt(old, sep), wait_to_parse=True,
                                 **dict(base, **init3)),
                            setc(""), parse()]
                pairs += [("A", "I3b", "final"), ("A", "I3c", "final")]
        tl = {k: v for k, v in sigma.items() if k in TRACT_LEVEL}
        if tl and len(tl) == len(sigma):
            H["R"] = [desc(None, parse_qq=True),
                      {"op": "parse_tracts", "config": txt(old, sep),
                       "kw": dict(tl)}]
            H["R2"] = [desc(txt(old, sep), parse_qq=True),
                       {"op": "parse_tracts", "config": None, "kw": dict(tl)}]
            pairs += [("A", "R", "final"), ("A", "R2", "final")]
    elif fam == "precedence" and cls == "Tract":
        H["Z"] = [tract(txt(old, sep), parse_qq=True)]
        H["A"] = [tract(txt(sigma, sep), parse_qq=True)]
        H["P"] = [tract(txt(old, sep)), parse(**sigma)]
        H["P2"] = [tract(txt(old, sep), parse_qq=True), parse(**sigma)]
        H["P-"] = [tract(txt(old, sep), parse_qq=True),
                   parse(commit=False, **sigma)]
        H["Q"] = [tract(txt(old, sep)), setc(txt(sigma, sep)), parse()]
        H["Q3"] = [tract(txt(sigma, sep)), setc(txt(old, sep)),
                   setc(txt(sigma, sep)), parse()]
        H["P3"] = [tract(txt(sigma, sep)), setc(txt(old, sep)),
                   parse(**sigma)]
        pairs += [("A", "P", "final"), ("A", "P2", "final"),
                  ("A", "P-", "ret_vs_lots_qqs"), ("A", "Q", "final"),
                  ("A", "Q3", "final"), ("A", "P3", "final")]
    elif fam == "master":
        mc, mc2 = draw["mc"], draw["mc2"]
        d = {"default_ns": mc["ns"], "default_ew": mc["ew"]}
        eff = dict(d)
        eff.update(sigma)
        mset = {"op": "mc_set", "ns": mc["ns"], "ew": mc["ew"]}
        mset2 = {"op": "mc_set", "ns": mc2["ns"], "ew": mc2["ew"]}
        d2 = {"default_ns": mc2["ns"], "default_ew": mc2["ew"]}
        tw = draw["tw"]
        if cls == "PLSSDesc":
            H["Z"] = [desc(None)]
            H["M"] = [mset, desc(None)]
            H["Mc"] = [desc(txt(d, sep))]
            H["Mk"] = [desc(None, wait_to_parse=True),
                       parse(default_ns=d["default_ns"],
                             default_ew=d["default_ew"])]
            pairs += [("M", "Mc", "final"), ("M", "Mk", "final")]
            if sigma:
                H["M'"] = [mset, desc(txt(sigma, sep))]
                H["M'c"] = [desc(txt(eff, sep))]
                pairs.append(("M'", "M'c", "final"))
            H['M"'] = [mset, desc(None, wait_to_parse=True), mset2, parse()]
            H['M"c'] = [mset2, desc(None)]
            H['M"d'] = [desc(txt(d2, sep))]
            pairs += [('M"', 'M"c', "final"), ('M"', 'M"d', "final")]
            # MasterConfig changed AFTER the parse: what the subordinate
            # Tracts fall back on in a later set_twprgesec() is read at the
            # time of that call, not handed down frozen by the parse
            H["Ml"] = [mset, desc(None), mset2]
            pairs.append(("Ml", 'M"c', "obs"))
            if sigma:
                H["Ml'"] = [mset, desc(txt(sigma, sep)), mset2]
                H["M2'"] = [mset2, desc(txt(sigma, sep))]
                pairs.append(("Ml'", "M2'", "obs"))
        elif cls == "Tract":
            ft = {"op": "create", "cls": "from_twprgesec", "text": text,
                  "tw": tw, "config": None, "kw": {}}
            H["Z"] = [ft]
            H["M"] = [mset, ft]
            H["Mk"] = [dict(ft, kw={"default_ns": d["default_ns"],
                                    "default_ew": d["default_ew"]})]
            H["Mc"] = [dict(ft, config=txt(d, sep))]
            H["Ms"] = [mset, tract(None),
                       {"op": "set_twprgesec", "tw": tw, "kw": {}}]
            H["Msk"] = [tract(None),
                        {"op": "set_twprgesec", "tw": tw,
                         "kw": {"default_ns": d["default_ns"],
                                "default_ew": d["default_ew"]}}]
            pairs += [("M", "Mk", "trs"), ("M", "Mc", "trs"),
                      ("Ms", "Msk", "trs"), ("M", "Ms", "trs")]
            if sigma:
                H["M'"] = [mset, dict(ft, config=txt(sigma, sep))]
                H["M'c"] = [dict(ft, config=txt(eff, sep))]
                H["M'k"] = [mset, dict(ft, kw=dict(sigma))]
                pairs += [("M'", "M'c", "trs"), ("M'", "M'k", "trs")]
        elif cls == "TRS":
            ft = {"op": "create", "cls": "TRS.from_twprgesec", "tw": tw,
                  "kw": {}}
            H["Z"] = [ft]
            H["M"] = [mset, ft]
            H["Mk"] = [dict(ft, kw={"default_ns": d["default_ns"],
                                    "default_ew": d["default_ew"]})]
            pairs.append(("M", "Mk", "final"))
            fc = dict(ft, cls="TRS.construct_trs")
            H["Mc0"] = [mset, fc]
            H["Mck"] = [dict(fc, kw={"default_ns": d["default_ns"],
                                     "default_ew": d["default_ew"]})]
            pairs.append(("Mc0", "Mck", "final"))
            if sigma:
                H["M'"] = [mset, dict(ft, kw=dict(sigma))]
                H["M'k"] = [dict(ft, kw=dict(eff))]
                pairs.append(("M'", "M'k", "final"))
        else:  # find_twprge
            ff = {"op": "create", "cls": "find_twprge", "text": text,
                  "kw": {"preprocess": True}}
            H["Z"] = [ff]
            H["M"] = [mset, ff]
            H["Mk"] = [dict(ff, kw={"preprocess": True,
                                    "default_ns": d["default_ns"],
                                    "default_ew": d["default_ew"]})]
            pairs.append(("M", "Mk", "final"))
    elif fam == "displace":
        # expected: configured min/max (not qq_depth) overridden by keywords
        eff = {k: v for k, v in old.items() if k != "qq_depth"}
        eff.update(sigma)
        if cls == "PLSSDesc":
            H["Z"] = [desc(txt(old, sep), parse_qq=True)]
            H["A"] = [desc(txt(eff, sep) or None, parse_qq=True)]
            H["K"] = [desc(txt(old, sep), parse_qq=True), parse(**sigma)]
            H["K2"] = [desc(None, wait_to_parse=True, parse_qq=True),
                       setc(txt(old, sep)), parse(**sigma)]
            H["K-"] = [desc(txt(old, sep), parse_qq=True),
                       parse(commit=False, **sigma)]
            H["KT"] = [desc(txt(old, sep), parse_qq=True),
                       {"op": "parse_tracts", "config": None,
                        "kw": dict(sigma)}]
            pairs += [("A", "K", "final"), ("A", "K2", "final"),
                      ("A", "K-", "ret_vs_tracts"), ("A", "KT", "final")]
        else:
            H["Z"] = [tract(txt(old, sep), parse_qq=True)]
            H["A"] = [tract(txt(eff, sep) or None, parse_qq=True)]
            H["K"] = [tract(txt(old, sep)), parse(**sigma)]
            H["K2"] = [tract(None), setc(txt(old, sep)), parse(**sigma)]
            H["K-"] = [tract(txt(old, sep), parse_qq=True),
                       parse(commit=False, **sigma)]
            pairs += [("A", "K", "final"), ("A", "K2", "final"),
                      ("A", "K-", "ret_vs_lots_qqs")]
    elif fam == "wait":
        w = sigma["wait_to_parse"]
        s_text = opgen.setting_to_text("wait_to_parse", w)
        o_text = opgen.setting_to_text("wait_to_parse", old["wait_to_parse"])
        H["Z"] = [desc(None)]
        H["A"] = [desc(s_text)]
        H["I"] = [desc(None, wait_to_parse=w)]
        H["P"] = [desc(o_text, wait_to_parse=w)]
        pairs += [("A", "I", "final"), ("A", "P", "final")]
    elif fam == "twprgesec":
        tw = draw["tw"]
        s_text = txt(sigma, sep)
        ft = {"op": "create", "cls": "from_twprgesec", "text": text,
              "tw": tw, "config": None, "kw": {}}
        H["Z"] = [ft]
        H["A"] = [dict(ft, config=s_text)]
        H["B"] = [tract(s_text), {"op": "set_twprgesec", "tw": tw, "kw": {}}]
        H["B2"] = [tract(None), setc(s_text),
                   {"op": "set_twprgesec", "tw": tw, "kw": {}}]
        H["C"] = [tract(None),
                  {"op": "set_twprgesec", "tw": tw, "kw": dict(sigma)}]
        pairs += [("A", "B", "trs"), ("A", "B2", "trs"), ("A", "C", "trs")]
        kw = {k: v for k, v in sigma.items() if k != "ocr_scrub"}
        if kw and len(kw) == len(sigma):
            H["K"] = [dict(ft, kw=kw)]
            pairs.append(("A", "K", "trs"))
        kwd = {k: v for k, v in sigma.items() if k != "ocr_scrub"}
        if old and kwd:
            shared_o = {"__cfg_text": txt(old, ","), "shared": True}
            H["Ro"] = [dict(ft, config=txt(old, ","))]
            H["Rs"] = [{"op": "other_from", "text": "NE/4", "tw": tw,
                        "config": shared_o, "kw": dict(kwd)},
                       dict(ft, config=shared_o)]
            H["Rt"] = [{"op": "other_from", "text": "NE/4", "tw": tw,
                        "config": shared_o, "kw": dict(kwd)},
                       tract(shared_o),
                       {"op": "set_twprgesec", "tw": tw, "kw": {}}]
            pairs += [("Ro", "Rs", "trs"), ("Ro", "Rt", "trs")]
        if old:
            o_text = txt(old, sep)
            H["P"] = [tract(o_text),
                      {"op": "set_twprgesec", "tw": tw, "kw": dict(sigma)}]
            H["Q"] = [tract(o_text), setc(s_text),
                      {"op": "set_twprgesec", "tw": tw, "kw": {}}]
            pairs += [("A", "P", "trs"), ("A", "Q", "trs")]
            if kw and len(kw) == len(sigma):
                H["Pf"] = [dict(ft, config=o_text, kw=kw)]
                pairs.append(("A", "Pf", "trs"))
        if len(sigma) >= 2:
            ks = list(sigma)
            for tag, cfg_part, kw_part in (
                    ("Xf", {k: sigma[k] for k in ks[:1]},
                     {k: sigma[k] for k in ks[1:]}),
                    ("Xfr", {k: sigma[k] for k in ks[1:]},
                     {k: sigma[k] for k in ks[:1]})):
                if kw_part and "ocr_scrub" not in kw_part:
                    H[tag] = [dict(ft, config=txt(cfg_part, sep),
                                   kw=dict(kw_part))]
                    pairs.append(("A", tag, "trs"))
            sa = {k: sigma[k] for k in ks[:1]}
            sb = {k: sigma[k] for k in ks[1:]}
            H["X"] = [tract(txt(sa, sep)),
                      {"op": "set_twprgesec", "tw": tw, "kw": dict(sb)}]
            H["Xr"] = [tract(txt(sb, sep)),
                       {"op": "set_twprgesec", "tw": tw, "kw": dict(sa)}]
            pairs += [("A", "X", "trs"), ("A", "Xr", "trs")]
    return H, pairs


def build_reject(draw):
    """Histories that must each end in ValueError."""
    cls, text, sep = draw["cls"], draw["text"], draw["sep"]
    good = txt(draw["sigma"], sep)
    bad = draw["bogus"]
    mixed = sep.join(p for p in (good, bad) if p)
    H = {}
    H["cfg"] = [{"op": "create", "cls": "Config", "text": bad}]
    H["cfg_mixed"] = [{"op": "create", "cls": "Config", "text": mixed}]
    if cls == "PLSSDesc":
        H["init"] = [{"op": "create", "cls": "PLSSDesc", "text": text,
                      "config": mixed, "kw": {}}]
        H["assign"] = [{"op": "create", "cls": "PLSSDesc", "text": text,
                        "config": None, "kw": {}},
                       {"op": "set_config", "config": mixed}]
        H["parse_tracts"] = [{"op": "create", "cls": "PLSSDesc", "text": text,
                              "config": None, "kw": {}},
                             {"op": "parse_tracts", "config": mixed, "kw": {}}]
        H["config_tracts"] = [{"op": "create", "cls": "PLSSDesc", "text": text,
                               "config": None, "kw": {}},
                              {"op": "config_tracts", "config": bad}]
    else:
        H["init"] = [{"op": "create", "cls": "Tract", "text": text,
                      "trs": draw["trs"], "config": mixed, "kw": {}}]
        H["assign"] = [{"op": "create", "cls": "Tract", "text": text,
                        "trs": draw["trs"], "config": None, "kw": {}},
                       {"op": "set_config", "config": bad}]
        H["from_twprgesec"] = [{"op": "create", "cls": "from_twprgesec",
                                "text": text, "tw": [154, 97, 14],
                                "config": mixed, "kw": {}}]
    return H


# --------------------------------------------------------------------------
# execution
# --------------------------------------------------------------------------

CONFIG_ATTRS = opgen.ALL_SETTINGS


def _cfg_attrs(c):
    return {a: getattr(c, a, "<missing>") for a in CONFIG_ATTRS}


def _roundtrip(pytrs, text, sigma=None):
    """Per-step invariant on every Config a history constructs."""
    probs = []
    try:
        c = pytrs.Config(text)
    except Exception:  # noqa - a rejected text has nothing to round-trip
        return probs
    t1 = c.decompile_to_text()
    try:
        c2 = pytrs.Config(t1)
    except Exception as e:  # noqa
        return [f"Config({t1!r}) from decompiled text raised {type(e).__name__}"]
    a1, a2 = _cfg_attrs(c), _cfg_attrs(c2)
    for k in a1:
        if a1[k] != a2[k] or type(a1[k]) is not type(a2[k]):
            probs.append(f"attr {k}: {a1[k]!r} -> text {t1!r} -> {a2[k]!r}")
    t2 = c2.decompile_to_text()
    if t1 != t2:
        probs.append(f"text not a fixed point: {t1!r} -> {t2!r}")
    c3 = pytrs.Config(c)
    if _cfg_attrs(c3) != a1:
        probs.append("Config(Config) differs")
    if str(c) != t1:
        probs.append("str(Config) != decompile_to_text()")
    if sigma is not None:
        lower = {k: v for k, v in sigma.items()}
        if all(not isinstance(v, str) or v == v.lower() or k == "layout"
               for k, v in lower.items()):
            # ... and with the library's OWN layout constant in place of the
            # equal literal (what a caller writing pytrs.IMPLEMENTED_LAYOUTS[i]
            # or feeding back .current_layout passes)
            libbed = dict(lower)
            for const in getattr(pytrs, "IMPLEMENTED_LAYOUTS", ()):
                if "layout" in libbed and const == libbed["layout"]:
                    libbed["layout"] = const
            ctors = ("from_dict", "from_kwargs") + (
                ("from_kwargs_lib_constant",) if "layout" in libbed else ())
            for ctor in ctors:
                try:
                    if ctor == "from_dict":
                        cd = pytrs.Config.from_dict(dict(lower))
                    elif ctor == "from_kwargs_lib_constant":
                        cd = pytrs.Config.from_kwargs(**libbed)
                    else:
                        cd = pytrs.Config.from_kwargs(**lower)
                except Exception as e:  # noqa
                    probs.append(f"{ctor}({lower}) raised {type(e).__name__}")
                    continue
                ad = _cfg_attrs(cd)
                for k in a1:
                    if ad[k] != a1[k]:
                        probs.append(
                            f"{ctor} attr {k}: {ad[k]!r} vs text {a1[k]!r}")
                td = cd.decompile_to_text()
                try:
                    if _cfg_attrs(pytrs.Config(td)) != ad:
                        probs.append(f"{ctor} does not survive text {td!r}")
                except Exception as e:  # noqa
                    probs.append(f"{ctor} text {td!r} raised {type(e).__name__}")
    return probs


def _kw_ok(fn, kw):
    import inspect
    try:
        params = inspect.signature(fn).parameters
    except (TypeError, ValueError):
        return True
    if any(p.kind == p.VAR_KEYWORD for p in params.values()):
        return True
    return all(k in params for k in kw)


def _resolve_config(pytrs, cfg, shared):
    """Plan-level config value -> what is passed to the library."""
    if isinstance(cfg, dict) and "__cfg_text" in cfg:
        key = "T:" + cfg["__cfg_text"]
        if cfg.get("shared") and key in shared:
            return shared[key]
        obj = pytrs.Config(cfg["__cfg_text"])
        shared[key] = obj
        return obj
    if isinstance(cfg, dict) and "__cfg_copy_kwargs" in cfg:
        # the copy form Config(<Config object>) of an object that was NOT
        # built from text
        return pytrs.Config(pytrs.Config.from_kwargs(**cfg["__cfg_copy_kwargs"]))
    if isinstance(cfg, dict) and "__cfg_copy_text" in cfg:
        return pytrs.Config(pytrs.Config(cfg["__cfg_copy_text"]))
    if isinstance(cfg, dict) and "__cfg_kwargs" in cfg:
        return pytrs.Config.from_kwargs(**cfg["__cfg_kwargs"])
    if isinstance(cfg, dict) and "__cfg_dict" in cfg:
        return pytrs.Config.from_dict(dict(cfg["__cfg_dict"]))
    return cfg


def run_history(ops):
    import warnings
    pytrs = ensure_repo_on_path()
    warnings.simplefilter("ignore")
    shared = {}
    ops = [dict(op, config=_resolve_config(pytrs, op["config"], shared))
           if isinstance(op.get("config"), dict) else op for op in ops]
    subj = None
    outcomes = []
    roundtrip = []
    unavailable = False
    for k, op in enumerate(ops):
        kind = op["op"]
        cfg = op.get("config")
        if isinstance(cfg, str):
            roundtrip += _roundtrip(pytrs, cfg)
        try:
            if kind == "mc_set":
                pytrs.MasterConfig.default_ns = op["ns"]
                pytrs.MasterConfig.default_ew = op["ew"]
                out = {"ok": None}
            elif kind == "create":
                c = op["cls"]
                if c == "PLSSDesc":
                    if not _kw_ok(pytrs.PLSSDesc.__init__, op["kw"]):
                        unavailable = True
                        break
                    subj = pytrs.PLSSDesc(op["text"], config=op["config"],
                                          **op["kw"])
                elif c == "Tract":
                    subj = pytrs.Tract(op["text"], trs=op["trs"],
                                       config=op["config"], **op["kw"])
                elif c == "from_twprgesec":
                    tw = op["tw"]
                    if not _kw_ok(pytrs.Tract.from_twprgesec, op["kw"]):
                        unavailable = True
                        break
                    subj = pytrs.Tract.from_twprgesec(
                        op["text"], tw[0], tw[1], tw[2], config=op["config"],
                        **op["kw"])
                elif c == "TRS.from_twprgesec":
                    tw = op["tw"]
                    subj = pytrs.TRS.from_twprgesec(tw[0], tw[1], tw[2],
                                                    **op["kw"])
                elif c == "TRS.construct_trs":
                    tw = op["tw"]
                    subj = pytrs.TRS.construct_trs(tw[0], tw[1], tw[2],
                                                   **op["kw"])
                elif c == "find_twprge":
                    subj = pytrs.find_twprge(op["text"], **op["kw"])
                elif c == "Config":
                    subj = pytrs.Config(op["text"])
                else:
                    raise KeyError(c)
                out = {"ok": None}
            elif kind == "set_config":
                subj.config = op["config"]
                out = {"ok": None}
            elif kind == "parse":
                if not _kw_ok(subj.parse, op["kw"]):
                    unavailable = True
                    break
                out = {"ok": enc(subj.parse(commit=op["commit"], **op["kw"]))}
            elif kind == "parse_tracts":
                if not _kw_ok(subj.parse_tracts, op["kw"]):
                    unavailable = True
                    break
                subj.parse_tracts(config=op["config"], **op["kw"])
                out = {"ok": None}
            elif kind == "config_tracts":
                subj.config_tracts(op["config"])
                out = {"ok": None}
            elif kind == "tract_set_config":
                subj.tracts[op["i"]].config = op["config"]
                out = {"ok": None}
            elif kind == "preprocess":
                if not _kw_ok(subj.preprocess, op["kw"]):
                    unavailable = True
                    break
                out = {"ok": subj.preprocess(commit=op["commit"], **op["kw"])}
            elif kind == "deduce_layout":
                out = {"ok": subj.deduce_layout()}
            elif kind == "other_from":
                tw_ = op["tw"]
                pytrs.Tract.from_twprgesec(op["text"], tw_[0], tw_[1], tw_[2],
                                           config=op["config"], **op["kw"])
                out = {"ok": None}
            elif kind == "other_tract":
                # another Tract built from the SAME Config object first,
                # with an init keyword that disagrees with that Config
                pytrs.Tract("Lots 1, 2", trs="1n1w01", config=op["config"],
                            **op["kw"])
                out = {"ok": None}
            elif kind == "other_object":
                # another object built from the SAME (shared) Config first
                pytrs.PLSSDesc(op["text"], config=op["config"])
                out = {"ok": None}
            elif kind == "set_twprgesec":
                tw = op["tw"]
                if not _kw_ok(subj.set_twprgesec, op["kw"]):
                    unavailable = True
                    break
                out = {"ok": subj.set_twprgesec(tw[0], tw[1], tw[2],
                                                **op["kw"])}
            else:
                raise KeyError(kind)
        except Exception as e:  # noqa - outcome value
            out = {"raised": type(e).__name__,
                   "is_value_error": isinstance(e, ValueError)}
            outcomes.append(out)
            break
        outcomes.append(out)
    final = enc(subj) if subj is not None else None
    # What the subordinate Tracts inherited (default_ns / default_ew /
    # ocr_scrub only act later, in set_twprgesec): observe it.
    if isinstance(final, dict) and isinstance(subj, pytrs.PLSSDesc):
        obs = []
        try:
            for t in list(subj.tracts)[:3]:
                t2 = pytrs.Tract("", config=t.config)
                for a in ("default_ns", "default_ew", "ocr_scrub"):
                    setattr(t2, a, getattr(t, a, None))
                obs.append([t2.set_twprgesec(1, 2, 3),
                            t2.set_twprgesec("l5", "I0", "2")])
        except Exception as e:  # noqa
            obs.append({"raised": type(e).__name__})
        final["__obs_inherited"] = obs
    return {"outcomes": outcomes, "final": final, "roundtrip": roundtrip,
            "unavailable": unavailable}


def _project(res, what):
    """What a pair compares."""
    if res["outcomes"] and "raised" in res["outcomes"][-1]:
        return {"raised": res["outcomes"][-1]["raised"]}
    f = res["final"]
    if what == "final":
        return f
    if what == "trs":
        if isinstance(f, dict):
            return {k: f.get(k) for k in (
                "trs", "twp", "rge", "sec", "twp_num", "rge_num", "sec_num",
                "twp_ns", "rge_ew", "twprge")}
        return f
    if what == "tracts":
        return f.get("tracts") if isinstance(f, dict) else f
    if what in ("tract0", "tract1", "tract2"):
        try:
            return f["tracts"]["__TL"][int(what[-1])]
        except Exception:  # noqa
            return {"__missing": what}
    if what == "obs":
        # only what the subordinate Tracts do later, in set_twprgesec
        return {"__obs_inherited": f.get("__obs_inherited")} \
            if isinstance(f, dict) else f
    if what == "lots_qqs":
        return f.get("lots_qqs") if isinstance(f, dict) else f
    if what == "ret":
        return res["outcomes"][-1].get("ok")
    raise KeyError(what)


def check_plan(draw):
    failures, stats = [], {}

    def bump(k, v=1):
        stats[k] = stats.get(k, 0) + v

    fam = draw["family"]
    execs = 0
    log = {}
    nontrivial = False
    steps = 0
    if fam == "reject":
        H = build_reject(draw)
        for name in sorted(H):
            res = fork_call(run_history, (H[name],))
            execs += 1
            steps += len(res["outcomes"])
            last = res["outcomes"][-1] if res["outcomes"] else {}
            log[name] = res["outcomes"]
            bump(f"reject:{name}")
            if not last.get("is_value_error"):
                failures.append({
                    "oracle": f"reject:{name}",
                    "path": "outcome", "path_class": "outcome",
                    "detail": {"history": H[name], "outcome": last,
                               "expected": "ValueError"}})
        # round trip of the valid part
        res = fork_call(_roundtrip_only, (txt(draw["sigma"], draw["sep"]),
                                          draw["sigma"]))
        execs += 1
        for p in res:
            failures.append({"oracle": "roundtrip", "path": "config",
                             "path_class": "config",
                             "detail": {"problem": p, "sigma": draw["sigma"]}})
        nontrivial = True
        return {"failures": failures, "stats": stats, "nontrivial": nontrivial,
                "steps": steps, "execs": execs, "log": digest(log),
                "shape": f"reject:{draw['cls']}:{draw['bogus']}"}

    H, pairs = build(draw)
    results = {}
    for name in sorted(H):
        results[name] = fork_call(run_history, (H[name],))
        execs += 1
        steps += len(results[name]["outcomes"])
        log[name] = [results[name]["outcomes"], results[name]["final"]]
        for p in results[name]["roundtrip"]:
            failures.append({"oracle": "roundtrip", "path": "config",
                             "path_class": "config",
                             "detail": {"problem": p, "history": H[name]}})
    # roundtrip with from_dict for sigma itself
    if draw["sigma"]:
        for p in fork_call(_roundtrip_only,
                           (txt(draw["sigma"], draw["sep"]), draw["sigma"])):
            failures.append({"oracle": "roundtrip", "path": "config",
                             "path_class": "config",
                             "detail": {"problem": p, "sigma": draw["sigma"]}})
        execs += 1
    # does sigma make a difference on this text?
    ref = "A" if "A" in results else ("M" if "M" in results else None)
    effective = False
    if ref and "Z" in results:
        p, _ = compare(_project(results[ref], "final"),
                       _project(results["Z"], "final"))
        effective = p is not None
    if effective:
        bump("effective_draws")
    def aborted(name):
        # An op BEFORE the last one raised (e.g. the constructor of a
        # precedence history parsing at init under the *older* settings hit
        # the library's known crash on a colon-less lone section, C03): the
        # call the pair speaks about never ran, so there is nothing to
        # compare.  Seen on the unchanged tree in a 70 000-draw batch (3
        # draws) -- a false alarm, corrected.
        outs = results[name]["outcomes"]
        return bool(outs) and "raised" in outs[-1] and len(outs) < len(H[name])

    for a, b, what in pairs:
        ra, rb = results[a], results[b]
        if ra["unavailable"] or rb["unavailable"]:
            bump(f"unavailable:{b}")
            continue
        if aborted(a) or aborted(b):
            bump("aborted_history_skipped")
            continue
        if what == "ret_vs_tracts":
            va, vb = _project(ra, "tracts"), _project(rb, "ret")
        elif what == "ret_vs_lots_qqs":
            va, vb = _project(ra, "lots_qqs"), _project(rb, "ret")
        else:
            va, vb = _project(ra, what), _project(rb, what)
        path, order_only = compare(va, vb, exact=False)
        for s in draw["sigma"] or {"-": None}:
            bump(f"pair:{draw['cls']}:{fam}:{a}~{b}:{s}")
            if effective:
                bump(f"effective:{draw['cls']}:{fam}:{a}~{b}:{s}")
        if order_only:
            bump("order_only_difference")
        if path is not None:
            failures.append({
                "oracle": f"{fam}:{draw['cls']}:{a}~{b}",
                "path": path, "path_class": path_class(path),
                "detail": {"sigma": draw["sigma"], "old": draw["old"],
                           "mc": draw["mc"],
                           a: excerpt(va, path), b: excerpt(vb, path),
                           "history_" + a: H[a], "history_" + b: H[b]}})
    nontrivial = effective
    shape = f"{fam}:{draw['cls']}:" + ",".join(
        f"{k}={v}" for k, v in sorted(draw["sigma"].items()))
    return {"failures": failures, "stats": stats, "nontrivial": nontrivial,
            "steps": steps, "execs": execs, "log": digest(log),
            "shape": shape}


def _roundtrip_only(text, sigma):
    pytrs = ensure_repo_on_path()
    return _roundtrip(pytrs, text, sigma)


# --------------------------------------------------------------------------
# shrinking
# --------------------------------------------------------------------------

def shrink(draw):
    sig = draw["sigma"]
    if len(sig) > 1:
        for k in list(sig):
            d2 = copy.deepcopy(draw)
            del d2["sigma"][k]
            d2["old"].pop(k, None)
            yield d2
    for k in list(draw["old"]):
        d2 = copy.deepcopy(draw)
        del d2["old"][k]
        yield d2
    if draw["sep"] != ",":
        d2 = copy.deepcopy(draw)
        d2["sep"] = ","
        yield d2
    pool = list(corpus.WITNESS.values()) if draw["cls"] == "PLSSDesc" \
        else list(corpus.TRACT_WITNESS.values())
    for t in sorted(set(pool), key=len):
        if draw["text"] and len(t) < len(draw["text"]):
            d2 = copy.deepcopy(draw)
            d2["text"] = t
            yield d2
    if draw["text"]:
        for sep in ("\n", "; ", ", "):
            parts = draw["text"].split(sep)
            if len(parts) > 1:
                for i in range(len(parts)):
                    d2 = copy.deepcopy(draw)
                    d2["text"] = sep.join(parts[:i] + parts[i + 1:])
                    yield d2
    for k, v in sig.items():
        if isinstance(v, str) and v != v.lower() and k != "layout":
            d2 = copy.deepcopy(draw)
            d2["sigma"][k] = v.lower()
            yield d2


def describe(draw):
    return f"{draw['family']}:{draw['cls']}:{draw['sigma']}"


RULE = (
    "Each run draws (random.Random(derive(VERIF_SEED,'C13',i))) a family in "
    "{channels, precedence, master, wait, twprgesec, reject}, a class "
    "(PLSSDesc / Tract; TRS and find_twprge in the master family), a setting "
    "assignment sigma of 1-3 of the 16 settings (booleans both ways, "
    "directions in both cases, all five layouts, depths 1-3), and a text: in "
    "75% of draws the hand-picked witness of one of sigma's settings, else a "
    "generated description. build(draw) expands it into 3-12 named histories "
    "delivering the same settings through different channels (config string "
    "at creation, one or two .config assignments, parse()/parse_tracts() "
    "keywords, init keywords, config_tracts, MasterConfig), each executed in "
    "its own fork of a pristine process; declared pairs must have equal "
    "results-only snapshots. Every Config text used is also round-tripped "
    "(text -> Config -> text -> Config, from_dict, from_kwargs). A draw is "
    "NON-TRIVIAL iff sigma (or the MasterConfig value) measurably changes "
    "the outcome on the chosen text relative to the same history without it "
    "(history Z), or it is a reject draw. distinct = distinct draw digests "
    "among non-trivial draws."
)
ASSUMPTIONS = [
    "the library's own behaviour when a setting is delivered through the "
    "config string at creation is the reference for the other channels",
    "qq_depth is never combined with qq_depth_min/max and sec_colon_required "
    "never with sec_colon_cautious in one sigma (documented interplay rules "
    "make those non-conflicts)",
    "results-only snapshots (public attributes minus the 16 setting "
    "attributes) are compared; flag lists as multisets",
    "no fault space: no I/O, clock or sharing on these paths (DESIGN 4.2)",
]
