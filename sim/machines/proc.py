"""
C15 -- `proc`: process histories against a pristine process image.

A run is P ++ Q.  Q (the probe) is 1-3 calls on fresh objects; P is prior
activity of up to 15 operations: other parses, pre-warming the TRS cache with
the probe's own keys, cache clear/off/on, MasterConfig toggled (restored or
left toggled), hostile mutation of records the conversion functions returned,
calls that fail with documented errors, and calls cut short by an injected
interrupt at an arbitrary traced line.

Oracle: for every probe call, outcome(P ++ Q) == outcome(Q), the right-hand
side evaluated in a separate fork of the pristine zygote under the
MasterConfig values in force at that call.  Plus an isolation invariant after
every mutation: every object created earlier is unchanged (except the
PLSSDesc/Tract the mutated record was taken from, whose list attributes are
legitimately the returned objects).
"""

import copy

from .. import corpus, opgen
from ..engine import fork_call, ensure_repo_on_path, REPO
from ..snapshot import Ctx, enc, compare, path_class, digest, excerpt
from ..interrupt import Interrupter, SimInterrupt

PROP = "C15"
NAME = "proc"
LEVEL = "exploration"

FAILS = ("desc_int", "config_bogus", "trs_from_bad_ns", "tract_bad_trs",
         "sort_bad_key", "tractlist_str", "config_type", "dup_method",
         "from_dict_bad",
         # calls that fail *late*, after a good deal of work was done
         "config_good_then_bogus", "desc_config_good_then_bogus",
         "desc_deep_depth_type", "desc_bad_default_ns_kw",
         "tract_parse_bad_depth", "parse_tracts_bad_kw", "csv_bad_fp",
         "set_twprgesec_bad_ew", "ocr_parse_bad_ns", "segment_parse_bad_ns",
         "colon_required_crash")


# sort keys as plan data: a str key of the library, "fn:<name>" for a key
# function, or a list of those (a multi-key sort)
SORT_KEYS = ("s,r,t", "s", "t,r", "s.rev", "r.ew,t.ns", "t.sn", "r.we",
             ["s", "t.ns"], ["r.ew", "s.rev"], ["t", "r", "s"],
             "fn:trs", ["fn:sec", "t.sn"], ["s", "fn:trs_rev", "r.we"])
KEY_FUNCS = {
    "trs": lambda e: str(getattr(e, "trs", "")),
    "trs_rev": lambda e: str(getattr(e, "trs", ""))[::-1],
    "sec": lambda e: (getattr(e, "sec_num", None) is None,
                      getattr(e, "sec_num", None) or 0),
    "raises": lambda e: e.no_such_attribute_of_an_element,
}
LIST_FAILS = ("sort_late_bad_key", "sort_func_raises", "sort_reverse_mismatch",
              "group_bad_sort_key", "filter_func_raises", "from_multiple_bad",
              "trslist_bad_elem", "iter_abandoned", "sort_tracts_late_bad",
              "records_bad_attr")


def _mk_key(k):
    if isinstance(k, list):
        return [_mk_key(x) for x in k]
    if isinstance(k, str) and k.startswith("fn:"):
        return KEY_FUNCS[k[3:]]
    return k


def _gen_reverse(rng, key):
    if isinstance(key, list) and rng.random() < 0.4:
        return [rng.random() < 0.5 for _ in key]
    return rng.random() < 0.2


# --------------------------------------------------------------------------
# generation
# --------------------------------------------------------------------------

def _gen_tw(rng):
    t, r, s = rng.randint(1, 160), rng.randint(1, 105), rng.randint(1, 36)
    ocr = [str(t).replace("1", "I").replace("5", "S").replace("0", "O") + "n",
           str(r).replace("1", "l").replace("0", "O") + "w",
           str(s).replace("1", "l")]
    return rng.choice([[t, r, s], [str(t), str(r), str(s)], [f"{t}s", r, s],
                       [t, f"{r}e", str(s)], [None, r, s], [t, r, None],
                       [t, r, 140], ["x", r, s], ocr, ocr,
                       # numbers as they come out of a spreadsheet column
                       [t, r, float(s)], [float(t), r, s], [t, r, True]])


def _tw_is_ocr(tw):
    return any(isinstance(x, str) and any(c in x for c in "IlSO")
               for x in tw)


def gen_probe_op(rng, trs_pool=None):
    r = rng.random()
    trs_pool = trs_pool or [corpus.gen_trs_string(rng) for _ in range(3)]
    if r < 0.22:
        kw = {}
        if rng.random() < 0.6:
            kw["parse_qq"] = True
        return {"p": "desc", "text": corpus.gen_desc(rng),
                "config": opgen.gen_config_text(rng, hi=2), "kw": kw}
    if r < 0.245:
        return {"p": "desc_pt", "text": corpus.gen_desc(rng),
                "config": opgen.gen_config_text(rng, hi=2),
                "pkw": opgen.gen_kw(rng, opgen.TRACT_PARSE_KW, 0, 1)}
    if r < 0.30:
        return {"p": "desc_wait", "text": corpus.gen_desc(rng),
                "config": opgen.gen_config_text(rng, hi=2),
                "pkw": opgen.gen_kw(rng, ("parse_qq", "default_ns",
                                          "default_ew", "clean_qq"), 0, 2)}
    if r < 0.42:
        kw = {}
        if rng.random() < 0.7:
            kw["parse_qq"] = True
        return {"p": "tract", "text": corpus.gen_block(rng),
                "trs": rng.choice(trs_pool),
                "config": opgen.gen_config_text(
                    rng, opgen.TRACT_LEVEL, hi=2), "kw": kw}
    if r < 0.50:
        kw = {}
        if rng.random() < 0.3:
            kw["default_ns"] = rng.choice(("n", "s"))
        return {"p": "tract_from", "text": corpus.gen_block(rng),
                "tw": _gen_tw(rng),
                "config": opgen.gen_config_text(
                    rng, ("default_ns", "default_ew", "ocr_scrub",
                          "parse_qq"), hi=2), "kw": kw}
    if r < 0.55:
        tw_ = _gen_tw(rng)
        return {"p": "tract_set", "text": corpus.gen_block(rng),
                "tw": tw_, "kw": ({"ocr_scrub": rng.random() < 0.6}
                                  if _tw_is_ocr(tw_) else {})}
    if r < 0.66:
        return {"p": "trs", "s": rng.choice(trs_pool)}
    if r < 0.68:
        # an existing object pointed at another Twp/Rge/Sec
        return {"p": "trs_repoint", "s": rng.choice(trs_pool),
                "s2": rng.choice(trs_pool + [corpus.gen_trs_string(rng)]),
                "tw": _gen_tw(rng),
                "on": rng.choice(("TRS", "TRS", "Tract", "TRSList"))}
    if r < 0.74:
        kw = {}
        if rng.random() < 0.3:
            kw["default_ew"] = rng.choice(("e", "w"))
        tw_ = _gen_tw(rng)
        if _tw_is_ocr(tw_):
            kw["ocr_scrub"] = rng.random() < 0.6
        return {"p": "trs_from", "tw": tw_, "kw": kw}
    if r < 0.80:
        return {"p": "trs_to_dict", "s": rng.choice(trs_pool),
                "via": rng.choice(("func", "static", "obj", "func_obj"))}
    if r < 0.85:
        return {"p": "find_twprge", "text": corpus.gen_desc(rng),
                "kw": rng.choice(({}, {"preprocess": True},
                                  {"preprocess": True, "ocr_scrub": True},
                                  {"default_ns": "s"}))}
    if r < 0.87:
        return {"p": "find_sec", "text": corpus.gen_desc(rng)}
    if r < 0.93:
        items = [rng.choice(trs_pool) if rng.random() < 0.6
                 else corpus.gen_trs_string(rng)
                 for _ in range(rng.randint(1, 6))]
        key = copy.deepcopy(rng.choice(SORT_KEYS))
        return {"p": "trslist", "items": items,
                "key": key, "reverse": _gen_reverse(rng, key),
                "then": rng.choice(("sort", "sort", "dups", "group",
                                    "contains", "group_sorted",
                                    "group_unpack", "nested"))}
    if r < 0.97:
        key = copy.deepcopy(rng.choice(SORT_KEYS))
        return {"p": "tractlist",
                "texts": [corpus.gen_desc(rng) for _ in range(rng.randint(1, 2))],
                "key": key, "reverse": _gen_reverse(rng, key),
                "then": rng.choice(("sort_i", "dups", "group", "list_trs",
                                    "sort", "sort", "group_unpack",
                                    "group_func", "snapshot"))}
    if r < 0.985:
        return {"p": "sort_i", "text": corpus.gen_desc(rng),
                "scramble": copy.deepcopy(rng.choice(
                    ("s.rev", "t.sn,r.ew", "s,r,t", ["s.rev", "t.sn"],
                     ["fn:trs_rev", "r.we"])))}
    if r < 0.993:
        return {"p": "deduce", "text": corpus.gen_desc(rng),
                "candidates": rng.choice((
                    None, ["TRS_desc"], ["desc_STR", "S_desc_TR"],
                    ["TR_desc_S", "TRS_desc"], ["copy_all"])),
                "config": rng.choice((None, "ocr_scrub"))}
    return {"p": "default_lists", "trs": rng.choice(trs_pool),
            "text": corpus.gen_block(rng)}


def _gen_fail_list(rng, trs_pool, key=None):
    """A list operation that fails part-way (after some of its work)."""
    good = copy.deepcopy(key if key is not None else rng.choice(SORT_KEYS))
    good = good if isinstance(good, list) else [good]
    items = [rng.choice((f"{rng.randint(1, 9)}n{rng.randint(1, 9)}w"
                         f"{rng.randint(1, 9):02d}",
                         rng.choice(trs_pool), corpus.gen_trs_string(rng)))
             for _ in range(rng.randint(1, 5))]
    return {"o": "fail_list", "what": rng.choice(LIST_FAILS), "items": items,
            "key": good, "text": corpus.gen_desc(rng)}


def _perturb(rng, op):
    """Same text / strings as ``op`` but other settings (config, keywords)."""
    op = copy.deepcopy(op)
    if isinstance(op.get("config"), dict):
        return op
    if "text" in op and op["p"] in ("desc", "desc_wait") and rng.random() < 0.15:
        # someone asked for the layout of the very same text before
        return {"p": "deduce", "text": op["text"],
                "candidates": rng.choice((["TRS_desc"], ["desc_STR", "S_desc_TR"],
                                          ["TR_desc_S"], ["copy_all"], None)),
                "config": op.get("config") if rng.random() < 0.5 else None}
    if "config" in op and rng.random() < 0.5:
        # exactly one pipeline setting differs from the probe's own call
        name = rng.choice(("ocr_scrub", "default_ns", "default_ew", "clean_qq",
                           "segment", "layout", "sec_colon_required",
                           "qq_depth_min", "suppress_lot_divs"))
        extra = opgen.setting_to_text(name, opgen.setting_value(
            rng, name, allow_false=False))
        op["config"] = extra if not op["config"] else op["config"] + "," + extra
        return op
    if "config" in op:
        op["config"] = opgen.gen_config_text(rng, hi=3, none_ok=False)
    for key, names in (("kw", ("parse_qq",)), ("pkw", ("parse_qq", "ocr_scrub",
                                                      "default_ns", "clean_qq",
                                                      "segment"))):
        if key in op and op["p"] in ("desc", "desc_wait", "tract"):
            op[key] = opgen.gen_kw(rng, names, 0, 2)
    if op["p"] == "find_twprge":
        op["kw"] = rng.choice(({}, {"preprocess": True},
                               {"preprocess": True, "ocr_scrub": True},
                               {"default_ns": "s", "default_ew": "e",
                                "preprocess": True}))
    if op["p"] in ("tract_from", "trs_from", "tract_set"):
        op["kw"] = rng.choice(({}, {"default_ns": "s"}, {"default_ew": "e"},
                               {"default_ns": "s", "default_ew": "e"}))
    return op


STRAY = ("Being the following described lands: ", "All of the following: ",
         "", "", "")


def _same_settings(rng, op):
    """The probe's settings (config, keywords) applied to another text."""
    op = copy.deepcopy(op)
    if "text" in op and op["p"] in ("desc", "desc_wait", "desc_pt", "deduce",
                                    "find_twprge", "find_sec", "sort_i"):
        op["text"] = rng.choice(STRAY) + corpus.gen_desc(rng) + rng.choice(
            ("", "", " and all other lands of the grantor"))
    elif "text" in op:
        op["text"] = corpus.gen_block(rng)
    if "s" in op:
        op["s"] = corpus.gen_trs_string(rng)
    if "trs" in op and isinstance(op["trs"], str):
        op["trs"] = corpus.gen_trs_string(rng)
    if "items" in op:
        op["items"] = [corpus.gen_trs_string(rng) for _ in op["items"]]
    if "texts" in op:
        op["texts"] = [corpus.gen_desc(rng) for _ in op["texts"]]
    if "tw" in op:
        op["tw"] = _gen_tw(rng)
    return op


def probe_trs_strings(probe):
    """TRS keys the probe will look up (for pre-warming)."""
    out = []
    for op in probe:
        if "s" in op:
            out.append(op["s"])
        if "s2" in op:
            out.append(op["s2"])
        if "trs" in op:
            out.append(op["trs"])
        if "items" in op:
            out.extend(op["items"])
    return out


def _shadow_pair(rng):
    """
    The same text under two settings that differ in exactly one setting on
    whose witness text that setting matters: (probe op, shadow op).  Run as
    prior activity, the shadow is what a memo keyed too coarsely confuses
    the probe with.
    """
    if rng.random() < 0.65:
        name = rng.choice(sorted(corpus.WITNESS))
        if name == "wait_to_parse":
            name = "ocr_scrub"
        text = corpus.WITNESS[name]
        if name == "ocr_scrub" and rng.random() < 0.5:
            t, r = rng.randint(10, 160), rng.randint(10, 105)
            text = (corpus.fmt_twprge(rng, (t, "N", r, "W"), 9)
                    + f" Sec {rng.randint(1, 36)}: NE/4")
        base = opgen.gen_sigma(rng, [n for n in opgen.ALL_SETTINGS if n not in
                                     (name, "wait_to_parse", "layout")], 0, 1)
        with_ = dict(base)
        with_[name] = opgen.setting_value(rng, name, allow_false=False)
        kw = {"parse_qq": True} if name in opgen.TRACT_LEVEL else {}
        a = {"p": "desc", "text": text, "kw": dict(kw),
             "config": opgen.settings_to_text(base) or None}
        b = {"p": "desc", "text": text, "kw": dict(kw),
             "config": opgen.settings_to_text(with_)}
    elif rng.random() < 0.35:
        block = rng.choice(("NE/4", "N/2NE/4, Lots 1, 1", corpus.gen_block(rng)))
        head = rng.choice(("T154N-R97W Secs 14 and 15: ",
                           "T154-R97 Sec 14: ",
                           "T154N-R97W Sec 14: "))
        tail = rng.choice(("", "\nSec 16 NE/4 lying north of the river"))
        a = {"p": "tract", "text": block, "trs": corpus.gen_trs_string(rng),
             "config": None, "kw": {"parse_qq": True}}
        b = {"p": "desc_pt", "text": head + block + tail, "config": None,
             "pkw": {}}
        return (a, b)
    else:
        name = rng.choice(sorted(corpus.TRACT_WITNESS))
        if name == "parse_qq":
            name = "clean_qq"
        text = corpus.TRACT_WITNESS[name]
        with_ = {name: opgen.setting_value(rng, name, allow_false=False)}
        trs = corpus.gen_trs_string(rng)
        a = {"p": "tract", "text": text, "trs": trs, "config": None,
             "kw": {"parse_qq": True}}
        b = {"p": "tract", "text": text, "trs": trs,
             "config": opgen.settings_to_text(with_), "kw": {"parse_qq": True}}
    return (a, b) if rng.random() < 0.5 else (b, a)


def gen_plan(rng):
    trs_pool = [corpus.gen_trs_string(rng) for _ in range(rng.randint(2, 4))]
    probe = [gen_probe_op(rng, trs_pool) for _ in range(rng.randint(1, 3))]
    # setting-focused runs: one setting is switched on for the whole "job"
    # (the probe and, through the batch-job priors, much of what ran before)
    if rng.random() < 0.3:
        fname = rng.choice([n for n in opgen.ALL_SETTINGS
                            if n not in ("wait_to_parse", "layout")])
        ftext = opgen.setting_to_text(fname, opgen.setting_value(
            rng, fname, allow_false=False))
        for op_ in probe:
            if "config" in op_ and not isinstance(op_["config"], dict):
                op_["config"] = ftext if not op_["config"] \
                    else op_["config"] + "," + ftext
    shadow = None
    if rng.random() < 0.08:
        p_op, shadow = _shadow_pair(rng)
        probe[0] = p_op
    elif rng.random() < 0.06:
        # the caller keeps one Config object and hands it to an earlier call
        # (under other MasterConfig values or with other keywords) and to the
        # probe
        ctext = opgen.gen_config_text(rng, ("default_ns", "default_ew",
                                            "ocr_scrub", "clean_qq",
                                            "parse_qq", "qq_depth_min"),
                                      lo=0, hi=2, none_ok=False)
        pooled = {"pool": 0, "text": ctext}
        tw = _gen_tw(rng)
        probe[0] = rng.choice((
            {"p": "tract_from", "text": corpus.gen_block(rng), "tw": tw,
             "config": pooled, "kw": {}},
            {"p": "desc", "text": corpus.gen_desc(rng), "config": pooled,
             "kw": {}},
            {"p": "tract", "text": corpus.gen_block(rng),
             "trs": rng.choice(trs_pool), "config": pooled, "kw": {}}))
        shadow = rng.choice((
            {"p": "tract_from", "text": "NE/4", "tw": _gen_tw(rng),
             "config": pooled,
             "kw": rng.choice(({}, {"default_ns": "s"}, {"default_ew": "e"},
                               {"parse_qq": True}))},
            {"p": "tract", "text": "Lots 1, 1", "trs": "1n1w01",
             "config": pooled, "kw": {"parse_qq": rng.random() < 0.5}},
            {"p": "desc", "text": "T1-R1 Sec 1: NE/4", "config": pooled,
             "kw": {"parse_qq": True}}))
        if rng.random() < 0.6:
            shadow = {"__wrap_mc": {"ns": "s", "ew": "e"}, "probe": shadow}
    kinds = [k for k in ("other", "prewarm", "cache", "mc", "mutate", "fail",
                         "interrupt") if rng.random() < 0.6]
    n = rng.randint(0, 15) if kinds else 0
    prior = []
    mc_dirty = False
    for _ in range(n):
        k = rng.choice(kinds)
        if k == "other":
            # other texts, but sometimes the probe's own call (same text)
            r_ = rng.random()
            if r_ < 0.18:
                prior.append({"o": "other", "probe": copy.deepcopy(rng.choice(probe))})
            elif r_ < 0.36:
                # the probe's own text / strings under OTHER settings
                prior.append({"o": "other",
                              "probe": _perturb(rng, rng.choice(probe))})
            elif r_ < 0.50:
                # a batch job: the probe's own settings, another text
                prior.append({"o": "other",
                              "probe": _same_settings(rng, rng.choice(probe))})
            elif r_ < 0.54:
                # many objects; for Tracts: up to just below a round value
                # of the process-wide creation counter, so that the probe's
                # own tracts straddle it
                boundary = rng.choice((100, 256, 1000, 1024, 4096, 10000))
                prior.append({"o": "bulk", "n": rng.choice((200, 1200, 3000)),
                              "kind": rng.choice(("trs", "tract", "tract")),
                              "uid_target": boundary - rng.randint(0, 4)})
            else:
                prior.append({"o": "other", "probe": gen_probe_op(rng, trs_pool)})
        elif k == "prewarm":
            keys = probe_trs_strings(probe) or trs_pool
            ss = []
            for s in rng.sample(keys, min(len(keys), rng.randint(1, 3))):
                ss.append(s)
                v = rng.random()
                if v < 0.2:
                    ss.append(s.upper())
                elif v < 0.3:
                    ss.append(s + " ")
                elif v < 0.45 and len(s) > 4:
                    cut = rng.choice((len(s) - 2, len(s) // 2, 1))
                    ss.append(s[:cut] + " " + s[cut:])     # blank inside
                elif v < 0.5:
                    ss.append(s.capitalize())
                elif v < 0.56:
                    ss.append("")
                elif v < 0.6:
                    ss.append(None)
                if rng.random() < 0.3:
                    ss.reverse()
            prior.append({"o": "prewarm", "strings": ss,
                          "via": rng.choice(("TRS", "Tract", "TRSList"))})
        elif k == "cache":
            prior.append({"o": "cache",
                          "do": rng.choice(("clear", "off", "on", "clear"))})
        elif k == "mc":
            if mc_dirty and rng.random() < 0.5:
                prior.append({"o": "mc_restore"})
                mc_dirty = False
            else:
                prior.append({"o": "mc_set",
                              "ns": rng.choice(("s", "n", "S", "s")),
                              "ew": rng.choice(("e", "w", "E", "e"))})
                mc_dirty = True
        elif k == "mutate":
            prior.append({"o": "mutate", "src": rng.randrange(64),
                          "how": rng.randrange(8)})
        elif k == "fail":
            if rng.random() < 0.3:
                prior.append(_gen_fail_list(rng, trs_pool))
            else:
                prior.append({"o": "fail", "what": rng.choice(FAILS)})
        elif k == "interrupt":
            prior.append({"o": "interrupt", "at": rng.choice(
                (rng.randint(1, 60), rng.randint(1, 600), rng.randint(1, 2500)))})
            prior.append({"o": "other", "probe": gen_probe_op(rng, trs_pool)})
    for op_ in probe:
        if op_["p"] in ("trs_from", "tract_set", "tract_from") \
                and _tw_is_ocr(op_["tw"]):
            # the same components with ocr_scrub the other way round, earlier
            tw2 = copy.deepcopy(op_)
            tw2["kw"] = dict(tw2.get("kw") or {})
            tw2["kw"]["ocr_scrub"] = not tw2["kw"].get("ocr_scrub", False)
            prior.insert(rng.randint(0, len(prior)),
                         {"o": "other", "probe": tw2})
    for op_ in probe:
        if op_["p"] in ("trs_from", "tract_set", "tract_from") and any(
                isinstance(x, (float, bool)) for x in op_["tw"]):
            # the same components as plain ints, earlier (equal and
            # equal-hashed to the floats / bools of the probe)
            tw3 = copy.deepcopy(op_)
            tw3["tw"] = [int(x) if isinstance(x, (float, bool)) else x
                         for x in tw3["tw"]]
            prior.insert(rng.randint(0, len(prior)),
                         {"o": "other", "probe": tw3})
    for op_ in probe:
        if op_["p"] in ("trslist", "tractlist", "sort_i") and rng.random() < 0.5:
            # the same list operation (same sort key) on other, smaller data
            twin_ = _same_settings(rng, op_)
            if "items" in twin_:
                twin_["items"] = [f"{rng.randint(1, 9)}n{rng.randint(1, 9)}w"
                                  f"{rng.randint(1, 9):02d}"
                                  for _ in twin_["items"]]
            prior.insert(rng.randint(0, len(prior)),
                         {"o": "other", "probe": twin_})
            if rng.random() < 0.5:
                # ... and the same operation failing at its last key
                fl = _gen_fail_list(rng, trs_pool,
                                    key=op_.get("key", op_.get("scramble")))
                fl["what"] = rng.choice(("sort_late_bad_key",
                                         "sort_func_raises",
                                         "sort_tracts_late_bad"))
                if rng.random() < 0.6:
                    fl["items"] = [f"{rng.randint(1, 9)}n{rng.randint(1, 9)}w"
                                   f"{rng.randint(1, 9):02d}"
                                   for _ in fl["items"]]
                    fl["text"] = "T2N-R3W Sec 4: NE/4, Sec 1: ALL"
                prior.insert(rng.randint(0, len(prior)), fl)
    if shadow is not None and "__wrap_mc" in shadow:
        # ... while MasterConfig is toggled, and restored afterwards
        prior += [{"o": "mc_set", "ns": shadow["__wrap_mc"]["ns"],
                   "ew": shadow["__wrap_mc"]["ew"]},
                  {"o": "other", "probe": shadow["probe"]},
                  {"o": "mc_restore"}]
        mc_dirty = False
    elif shadow is not None:
        prior.insert(rng.randint(0, len(prior)), {"o": "other", "probe": shadow})
    if rng.random() < 0.025:
        # counter-boundary mode: the creation counter is driven to just below
        # a round value right before a probe that sorts several tracts of one
        # description back into creation order
        boundary = rng.choice((10, 100, 256, 1000, 1024, 4096, 10000))
        texts = [corpus.gen_desc(rng) for _ in range(2)]
        probe[0] = rng.choice((
            {"p": "sort_i", "text": rng.choice(corpus.HANDPICKED[-10:-6] + texts),
             "scramble": rng.choice(("s.rev", "t.sn,r.ew", "s,r,t"))},
            {"p": "tractlist", "texts": texts, "then": "sort_i"}))
        prior.append({"o": "bulk", "n": 50, "kind": "tract",
                      "uid_target": boundary - rng.randint(1, 3)})
    if mc_dirty and rng.random() < 0.6:
        prior.append({"o": "mc_restore"})
    if rng.random() < 0.15 and "cache" in kinds:
        prior.append({"o": "cache", "do": "off"})
    # occasionally toggle MasterConfig *between* the calls of a probe
    between = None
    two_step = any(op["p"] in ("desc_wait", "tract_set") for op in probe)
    if rng.random() < (0.45 if two_step else 0.05):
        between = {"ns": rng.choice(("s", "n")), "ew": rng.choice(("e", "w"))}
    # A few runs sweep an interrupt over EVERY traced line of one prior call
    # that is identical to the first probe call (so that it touches the same
    # process-global keys), instead of sampling one position.
    sweep = rng.random() < 0.012
    return {"machine": NAME, "prior": prior, "probe": probe,
            "mc_between": between, "sweep": sweep}


# --------------------------------------------------------------------------
# execution
# --------------------------------------------------------------------------

_CFG_POOL = {}


def _cfg(pytrs, c):
    """A plan-level config: text, None, or {"pool": k, "text": t} meaning the
    caller keeps ONE Config object (per k) and passes it to several calls."""
    if isinstance(c, dict) and "pool" in c:
        key = (c["pool"], c["text"])
        if key not in _CFG_POOL:
            _CFG_POOL[key] = pytrs.Config(c["text"])
        return _CFG_POOL[key]
    return c


def _run_probe_op(pytrs, op, hooks=None):
    """Returns (value_to_compare, object_for_pool)."""
    if isinstance(op.get("config"), dict):
        op = dict(op, config=_cfg(pytrs, op["config"]))
    p = op["p"]
    if p == "desc":
        d = pytrs.PLSSDesc(op["text"], config=op["config"], **op["kw"])
        return [enc(d), d.pretty_desc(), d.quick_desc(),
                [t.pretty_twprge() for t in d.tracts]], d
    if p == "desc_pt":
        d = pytrs.PLSSDesc(op["text"], config=op["config"])
        d.parse_tracts(**op.get("pkw", {}))
        return [enc(d), d.pretty_desc()], d
    if p == "desc_wait":
        d = pytrs.PLSSDesc(op["text"], config=op["config"], wait_to_parse=True)
        if hooks:
            hooks()
        ret = d.parse(**op["pkw"])
        return [enc(ret), enc(d)], d
    if p == "tract":
        t = pytrs.Tract(op["text"], trs=op["trs"], config=op["config"],
                        **op["kw"])
        return [enc(t), t.pretty_twprge(), t.quick_desc()], t
    if p == "tract_from":
        tw = op["tw"]
        t = pytrs.Tract.from_twprgesec(op["text"], tw[0], tw[1], tw[2],
                                       config=op["config"], **op["kw"])
        return enc(t), t
    if p == "tract_set":
        tw = op["tw"]
        t = pytrs.Tract(op["text"])
        if hooks:
            hooks()
        r = t.set_twprgesec(tw[0], tw[1], tw[2], **op["kw"])
        return [r, enc(t)], t
    if p == "trs":
        t = pytrs.TRS(op["s"])
        return [enc(t), t.pretty_twprge(), str(t), t.is_error(),
                t.is_undef()], t
    if p == "trs_repoint":
        tw = op["tw"]
        if op["on"] == "Tract":
            t = pytrs.Tract("NE/4", trs=op["s"])
            first = enc(t)
            t.trs = op["s2"]
            second = enc(t)
            t.set_twprgesec(tw[0], tw[1], tw[2])
            return [first, second, enc(t)], t
        if op["on"] == "TRSList":
            tl = pytrs.TRSList([op["s"], op["s2"]])
            first = enc(tl)
            tl[0].trs = op["s2"]
            tl[1].set_twprgesec(tw[0], tw[1], tw[2])
            return [first, enc(tl)], tl
        t = pytrs.TRS(op["s"])
        first = enc(t)
        t.trs = op["s2"]
        second = enc(t)
        t.set_twprgesec(tw[0], tw[1], tw[2])
        return [first, second, enc(t), t.is_error()], t
    if p == "trs_from":
        tw = op["tw"]
        t = pytrs.TRS.from_twprgesec(tw[0], tw[1], tw[2], **op["kw"])
        return enc(t), t
    if p == "trs_to_dict":
        if op["via"] == "func":
            d = pytrs.trs_to_dict(op["s"])
        elif op["via"] == "func_obj":
            d = pytrs.trs_to_dict(pytrs.TRS(op["s"]))
        elif op["via"] == "static":
            d = pytrs.TRS.trs_to_dict(op["s"])
        else:
            d = pytrs.TRS.trs_to_dict(pytrs.TRS(op["s"]))
        return enc(d), d
    if p == "find_twprge":
        r = pytrs.find_twprge(op["text"], **op["kw"])
        return enc(r), r
    if p == "find_sec":
        r = pytrs.find_sec(op["text"])
        return enc(r), r
    if p == "trslist":
        tl = pytrs.TRSList(op["items"])
        then = op["then"]
        if then == "sort":
            tl.custom_sort(_mk_key(op.get("key", "s,r,t")),
                           op.get("reverse", False))
            return enc(tl), tl
        if then == "group_sorted":
            return enc(tl.group_by("twprge",
                                   sort_key=_mk_key(op.get("key", "s")))), tl
        if then == "dups":
            return [enc(tl.filter_duplicates()), enc(tl)], tl
        if then == "group_unpack":
            g = tl.group_by("twprge")
            key = _mk_key(op.get("key", "s"))
            g2 = pytrs.TRSList.sort_grouped(g, key)
            return [enc(g2), enc(pytrs.TRSList.unpack_group(g)),
                    enc(pytrs.TRSList.unpack_group(g, sort_key=key)),
                    enc(tl)], tl
        if then == "nested":
            return [enc(tl.group_by(["twp", "rge"], sort_key=_mk_key(op.get("key", "s")))),
                    enc(tl.group_by(["twp", "sec"]))], tl
        if then == "group":
            return enc(tl.group_by("twprge")), tl
        return [tl.contains(op["items"][0]), enc(tl)], tl
    if p == "tractlist":
        descs = [pytrs.PLSSDesc(t, parse_qq=True) for t in op["texts"]]
        tl = pytrs.TractList.from_multiple(descs)
        then = op["then"]
        if then == "sort_i":
            tl.custom_sort("s.rev")
            tl.custom_sort("i")
            return enc(tl), tl
        if then == "sort":
            tl.custom_sort(_mk_key(op.get("key", "s,r,t")),
                           op.get("reverse", False))
            return enc(tl), tl
        if then == "dups":
            return enc(tl.filter_duplicates(method="lots_qqs")), tl
        if then == "group_unpack":
            g = tl.group_by("twprge")
            key = _mk_key(op.get("key", "s"))
            g2 = pytrs.sort_grouped_tracts(g, key)
            return [enc(g2), enc(pytrs.TractList.unpack_group(g)),
                    enc(pytrs.TractList.unpack_group(g, sort_key=key)),
                    enc(tl)], tl
        if then == "group_func":
            g = pytrs.group_tracts_by(descs, "twprge",
                                      sort_key=_mk_key(op.get("key", "s")))
            return [enc(g), enc(tl.group_by(["twp", "sec"]))], tl
        if then == "snapshot":
            return [tl.snapshot_inside(), tl.quick_desc(),
                    enc(tl.tracts_to_dict("trs", "lots_qqs"))], tl
        if then == "group":
            return enc(tl.group_by("twprge", sort_key="i")), tl
        return tl.list_trs(remove_duplicates=True), tl
    if p == "deduce":
        d = pytrs.PLSSDesc(op["text"], config=op["config"], wait_to_parse=True)
        return [d.deduce_layout(candidates=op["candidates"]),
                d.deduce_layout()], d
    if p == "default_lists":
        # containers built with their default arguments, then used
        tl, sl = pytrs.TractList(), pytrs.TRSList()
        before = [len(tl), len(sl)]
        tl.append(pytrs.Tract(op["text"], trs=op["trs"]))
        sl.append(op["trs"])
        grouped = tl.group_by("twprge")
        return [before, enc(tl), enc(sl), enc(grouped),
                enc(pytrs.TractList.from_multiple(tl, [tl])),
                enc(sl.filter_duplicates())], tl
    if p == "sort_i":
        d = pytrs.PLSSDesc(op["text"])
        d.sort_tracts(_mk_key(op["scramble"]))
        mid = [t.orig_index for t in d.tracts]
        d.sort_tracts("i")
        return [mid, [t.orig_index for t in d.tracts], enc(d)], d
    raise KeyError(p)


def _deep_mutate(x, depth=0):
    """Hostile caller: overwrite, clear, append -- containers only."""
    if depth > 6:
        return
    if isinstance(x, dict):
        for k in list(x):
            v = x[k]
            if isinstance(v, (dict, list)):
                _deep_mutate(v, depth + 1)
            x[k] = "MUTATED"
        x["zzz_injected"] = ["MUTATED"]
    elif isinstance(x, list):
        for v in list(x):
            if isinstance(v, (dict, list)):
                _deep_mutate(v, depth + 1)
        x.clear()
        x.append("MUTATED")


ATTRS_ALL = ("trs", "twp", "desc", "lots", "qqs", "lots_qqs", "w_flags",
             "w_flag_lines", "e_flags", "lot_acres", "aliquots_whole",
             "ilots", "flags", "flag_lines")


def _extract_record(pytrs, src, how):
    """A record returned by one of the conversion functions for ``src``."""
    if isinstance(src, pytrs.PLSSDesc):
        choices = (
            lambda: src.tracts_to_dict(*ATTRS_ALL),
            lambda: src.tracts_to_list(list(ATTRS_ALL)),
            lambda: src.list_trs(),
            lambda: src.tracts.to_standard_list(),
            lambda: src.group_by("twprge"),
            lambda: list(src.iter_to_dict("lots", "qqs", "lot_acres")),
            lambda: src.tracts_to_dict("lot_acres", "w_flag_lines"),
            lambda: src.group_by(["twp", "rge"]),
        )
        return choices[how % len(choices)]()
    if isinstance(src, pytrs.Tract):
        choices = (
            lambda: src.to_dict(*ATTRS_ALL),
            lambda: src.to_list(list(ATTRS_ALL)),
            lambda: pytrs.trs_to_dict(src.trs),
        )
        return choices[how % len(choices)]()
    if isinstance(src, pytrs.TRS):
        choices = (
            lambda: pytrs.TRS.trs_to_dict(src),
            lambda: pytrs.trs_to_dict(src.trs),
            lambda: pytrs.TRS.trs_to_dict(src.trs),
            lambda: pytrs.trs_to_dict(src),     # the function, given the object
        )
        return choices[how % len(choices)]()
    if isinstance(src, pytrs.TractList):
        choices = (
            lambda: src.tracts_to_dict(*ATTRS_ALL),
            lambda: src.to_standard_list(),
            lambda: src.group_by("twprge"),
        )
        return choices[how % len(choices)]()
    if isinstance(src, pytrs.TRSList):
        choices = (
            lambda: src.to_standard_list(),
            lambda: src.to_strings(),
            lambda: src.group_by("twprge"),
            lambda: [pytrs.trs_to_dict(t) for t in src],
        )
        return choices[how % len(choices)]()
    if isinstance(src, (dict, list)):
        return src
    return None


def _repoint_trs(pytrs, src, how):
    """A caller re-using its own TRS objects for another Twp/Rge/Sec."""
    n = 0
    elems = []
    if isinstance(src, pytrs.TRSList):
        elems = list(src)[:3]
    elif isinstance(src, pytrs.TRS):
        elems = [src]
    for t in elems:
        if how % 2:
            t.trs = "12n34w05"
        else:
            t.set_twprgesec(12, 34, 5, default_ns="s", default_ew="e")
        n += 1
    return n


def _mutate_config_of(pytrs, src, how):
    """A caller editing the Config object an earlier object handed out."""
    cfgs = []
    if isinstance(src, (pytrs.PLSSDesc, pytrs.Tract)):
        cfgs.append(src.config)
    if isinstance(src, pytrs.PLSSDesc):
        cfgs += [t.config for t in list(src.tracts)[:2]]
    if isinstance(src, pytrs.TractList):
        cfgs += [t.config for t in list(src)[:2]]
    shared = {id(x) for x in _CFG_POOL.values()}
    n_edited = 0
    for c in cfgs:
        if id(c) in shared:
            continue     # editing that one legitimately changes later calls
        if isinstance(c, pytrs.Config):
            n_edited += 1
            c.qq_depth = 1
            c.clean_qq = True
            c.default_ns, c.default_ew = "s", "e"
            c.layout = "copy_all"
            c.parse_qq = bool(how % 2)
    return n_edited


def _do_fail(pytrs, what):
    if what == "desc_int":
        pytrs.PLSSDesc(123)
    elif what == "config_bogus":
        pytrs.Config("bogus_setting")
    elif what == "trs_from_bad_ns":
        pytrs.TRS.from_twprgesec(1, 2, 3, default_ns="x")
    elif what == "tract_bad_trs":
        pytrs.Tract("NE/4", trs=5)
    elif what == "sort_bad_key":
        pytrs.PLSSDesc("T154N-R97W Sec 14: NE/4").sort_tracts("zz")
    elif what == "tractlist_str":
        pytrs.TractList("abc")
    elif what == "config_type":
        pytrs.PLSSDesc("T154N-R97W Sec 14: NE/4", config=5)
    elif what == "dup_method":
        pytrs.TractList().filter_duplicates(method="nope")
    elif what == "from_dict_bad":
        pytrs.Config.from_dict({"clean_qq": "yes"})
    elif what == "config_good_then_bogus":
        pytrs.Config("s,e,qq_depth_min.3,clean_qq,seg_ment")
    elif what == "desc_config_good_then_bogus":
        pytrs.PLSSDesc("T154-R97 Sec 14: NE/4",
                       config="s;e;parse_qq;qq_depth.1;ocr_scrub;bogus.2")
    elif what == "desc_deep_depth_type":
        pytrs.PLSSDesc("T154-R97 Sec 14: N/2NE/4, Lots 1, 1\nSec 15: W/2",
                       config="s,e,parse_qq,qq_depth_min.two")
    elif what == "desc_bad_default_ns_kw":
        d = pytrs.PLSSDesc("T154-R97 Sec 14: NE/4", config="e",
                           wait_to_parse=True)
        d.parse(default_ns="x", parse_qq=True)
    elif what == "tract_parse_bad_depth":
        t = pytrs.Tract("N/2NE/4, Lots 1, 1", trs="154s97e14", config="clean_qq")
        t.parse(qq_depth_max="x", qq_depth_min=3)
    elif what == "parse_tracts_bad_kw":
        d = pytrs.PLSSDesc("T154N-R97W Sec 14: NE/4\nSec 15: Lots 1, 1")
        d.parse_tracts(config="clean_qq,qq_depth.1", qq_depth_min="y")
    elif what == "csv_bad_fp":
        pytrs.PLSSDesc("T154N-R97W Sec 14: NE/4").tracts_to_csv(
            ["trs"], "", "w")
    elif what == "ocr_parse_bad_ns":
        d = pytrs.PLSSDesc("TI54-R97 Sec 14: NE/4\nT155-R97 Sec 15: W/2",
                           config="ocr_scrub", wait_to_parse=True)
        d.parse(default_ns="north")
    elif what == "segment_parse_bad_ns":
        d = pytrs.PLSSDesc("Being the lands: T154-R97 Sec 14: NE/4\n"
                           "T155-R97 W/2 of Section 15 and others",
                           config="segment,sec_within", wait_to_parse=True)
        d.parse(default_ew="east")
    elif what == "colon_required_crash":
        # a known crash of the pinned tree (C03's business): a natural
        # "earlier call that raised half-way"
        pytrs.PLSSDesc("T154N-R97W Section 14 NE/4", config="sec_colon_required")
    elif what == "set_twprgesec_bad_ew":
        pytrs.Tract("NE/4", config="s").set_twprgesec(1, 2, 3, default_ew="q")


def _do_fail_list(pytrs, op):
    what = op["what"]
    good = _mk_key(op["key"])
    sl = pytrs.TRSList([s if s is not None else "" for s in op["items"]])
    if what == "sort_late_bad_key":
        sl.custom_sort(key=good + ["zz"])
    elif what == "sort_func_raises":
        sl.custom_sort(key=good + [KEY_FUNCS["raises"]])
    elif what == "sort_reverse_mismatch":
        sl.custom_sort(key=good + ["s"], reverse=[True])
    elif what == "group_bad_sort_key":
        sl.group_by("twprge", sort_key=good + ["zz"])
    elif what == "filter_func_raises":
        sl.filter(KEY_FUNCS["raises"])
    elif what == "from_multiple_bad":
        pytrs.TractList.from_multiple(pytrs.PLSSDesc(op["text"]), 5)
    elif what == "trslist_bad_elem":
        sl.extend(5)
    elif what == "iter_abandoned":
        d = pytrs.PLSSDesc(op["text"], parse_qq=True)
        it = d.tracts.iter_to_dict("trs", "desc", "lots_qqs")
        next(it, None)
        it2 = iter(d.tracts)
        next(it2, None)
        del it, it2
        raise RuntimeError("abandoned")      # counts as a failing call
    elif what == "sort_tracts_late_bad":
        d = pytrs.PLSSDesc(op["text"])
        d.sort_tracts(key=good + [rng_free_choice(op)])
    elif what == "records_bad_attr":
        pytrs.PLSSDesc(op["text"]).tracts_to_dict(5)


def rng_free_choice(op):
    """'zz' or a raising key function, decided by the plan's data alone."""
    return "zz" if len(op["items"]) % 2 else KEY_FUNCS["raises"]


def _mc(pytrs):
    return [pytrs.MasterConfig.default_ns, pytrs.MasterConfig.default_ew]


def run(prior, probe, mc_between=None, with_prior=True, mc_script=None):
    """
    Execute prior ++ probe (with_prior=True) or the reference (False; then
    ``mc_script[j]`` gives the MasterConfig values to put in force before
    probe call j, and before its second half where it has one).
    """
    import warnings
    pytrs = ensure_repo_on_path()
    warnings.simplefilter("ignore")
    MC = pytrs.MasterConfig
    orig_mc = _mc(pytrs)
    ctx = Ctx()
    pool = []
    fired = {}
    isolation = []
    steps = 0
    pending_interrupt = None
    mc_changes = 0
    plan_mc = list(orig_mc)      # what the plan's own mc_set/mc_restore ops
    #                              put in force -- never read back from pytrs
    mc_leaks = []

    def bump(k, v=1):
        fired[k] = fired.get(k, 0) + v

    if with_prior:
        for op in prior:
            o = op["o"]
            steps += 1
            try:
                if o == "other":
                    if pending_interrupt is not None:
                        at = pending_interrupt
                        pending_interrupt = None
                        try:
                            with Interrupter(REPO, at) as it:
                                _v, obj = _run_probe_op(pytrs, op["probe"])
                            bump("interrupt_not_reached")
                            pool.append(obj)
                        except SimInterrupt:
                            bump("interrupt_fired")
                            bump("interrupt_fired_in:" + it.where[0])
                    else:
                        _v, obj = _run_probe_op(pytrs, op["probe"])
                        pool.append(obj)
                        bump("other_calls")
                elif o == "bulk":
                    if op["kind"] == "trs":
                        pytrs.TRSList([f"{1 + j % 150}n{1 + j // 150}w{1 + j % 36:02d}"
                                       for j in range(op["n"])])
                    else:
                        n_ = op["n"]
                        uid = getattr(pytrs.Tract, "_Tract__UID", None)
                        tgt = op.get("uid_target")
                        if isinstance(uid, int) and tgt and uid < tgt <= uid + 12000:
                            n_ = tgt - uid
                            bump("bulk_to_counter_boundary")
                        for j in range(n_):
                            pytrs.Tract("NE/4", trs=f"{1 + j % 150}s{1 + j // 150}e01")
                        op = dict(op, n=n_)
                    bump("bulk_objects", op["n"])
                elif o == "prewarm":
                    for s in op["strings"]:
                        if op["via"] == "TRS":
                            pool.append(pytrs.TRS(s))
                        elif op["via"] == "Tract":
                            pool.append(pytrs.Tract("NE/4", trs=s))
                        else:
                            pool.append(pytrs.TRSList([s if s is not None else ""]))
                    bump("prewarm_strings", len(op["strings"]))
                elif o == "cache":
                    if op["do"] == "clear":
                        fn = getattr(pytrs.TRS, "_clear_cache", None)
                        if fn is None:
                            bump("unavailable:_clear_cache")
                        else:
                            fn()
                            bump("cache_clear")
                    else:
                        if not hasattr(pytrs.TRS, "_USE_CACHE"):
                            bump("unavailable:_USE_CACHE")
                        else:
                            pytrs.TRS._USE_CACHE = (op["do"] == "on")
                            bump("cache_" + op["do"])
                elif o == "mc_set":
                    MC.default_ns, MC.default_ew = op["ns"], op["ew"]
                    plan_mc = [op["ns"], op["ew"]]
                    mc_changes += 1
                elif o == "mc_restore":
                    MC.default_ns, MC.default_ew = orig_mc
                    plan_mc = list(orig_mc)
                    mc_changes += 1
                elif o == "mutate":
                    if pool:
                        src = pool[op["src"] % len(pool)]
                        before = [enc(x, ctx, full=True) for x in pool]
                        rec = _extract_record(pytrs, src, op["how"])
                        _deep_mutate(rec)
                        bump("mutations")
                        if op["how"] % 3 == 0:
                            if _mutate_config_of(pytrs, src, op["how"]):
                                bump("config_objects_edited")
                        if op["how"] % 4 == 1:
                            if _repoint_trs(pytrs, src, op["how"]):
                                bump("trs_objects_repointed")
                        after = [enc(x, ctx, full=True) for x in pool]
                        for j, (b, a) in enumerate(zip(before, after)):
                            if pool[j] is src and isinstance(
                                    src, (pytrs.PLSSDesc, pytrs.Tract,
                                          pytrs.TractList, dict, list)):
                                continue
                            if _shares_tracts(pytrs, pool[j], src):
                                continue
                            if _shares_parts(pytrs, pool[j], src):
                                continue
                            path, _ = compare(b, a, exact=True)
                            if path is not None:
                                isolation.append({
                                    "prior_index": steps - 1, "path": path,
                                    "obj": type(pool[j]).__name__,
                                    "src": type(src).__name__,
                                    "before": excerpt(b, path),
                                    "after": excerpt(a, path)})
                elif o == "fail":
                    try:
                        _do_fail(pytrs, op["what"])
                        bump("fail_did_not_raise:" + op["what"])
                    except Exception:  # noqa
                        bump("failing_calls")
                elif o == "fail_list":
                    try:
                        _do_fail_list(pytrs, op)
                        bump("fail_did_not_raise:" + op["what"])
                    except Exception:  # noqa
                        bump("failing_calls")
                        bump("failing_list_calls")
                elif o == "interrupt":
                    pending_interrupt = op["at"]
            except SimInterrupt:
                bump("interrupt_fired")
            except Exception as e:  # noqa - prior activity may fail; that is allowed
                bump("prior_op_raised")
            # the library itself never writes MasterConfig: whatever ran
            # (completed, failed or interrupted), the values in force are
            # the ones the caller put there
            if _mc(pytrs) != plan_mc:
                mc_leaks.append({"prior_index": steps - 1, "op": op,
                                 "expected": list(plan_mc),
                                 "found": _mc(pytrs)})
                MC.default_ns, MC.default_ew = plan_mc

    # ---- state probes at probe time
    state = {}
    cache = getattr(pytrs.TRS, "_TRS__CACHE", None)
    if isinstance(cache, dict):
        keys = probe_trs_strings(probe)
        state["cache_size"] = len(cache)
        state["cache_holds_probe_key"] = int(any(k in cache for k in keys))
    else:
        state["cache_unmeasured"] = 1
    state["cache_disabled"] = int(getattr(pytrs.TRS, "_USE_CACHE", True) is False)
    uid_ = getattr(pytrs.Tract, "_Tract__UID", None)
    if isinstance(uid_, int) and not isinstance(uid_, bool):
        state["uid"] = uid_
    else:
        state["uid"] = -1              # a refactor changed the counter:
        state["uid_unmeasured"] = 1    # the probe still runs, unmeasured
    state["mc_changes"] = mc_changes
    state["mc_at_probe"] = list(plan_mc)

    # ---- the probe
    outcomes, mc_log = [], []
    for j, op in enumerate(probe):
        if not with_prior and mc_script is not None:
            # The reference evaluates a two-step probe (create waiting, then
            # parse / set_twprgesec) entirely under the values in force at
            # its *second* step: what the call returns may depend only on
            # the defaults in force at the time of that call.
            MC.default_ns, MC.default_ew = \
                mc_script[j][1] or mc_script[j][0]
        first = list(plan_mc) if with_prior else _mc(pytrs)
        second = [None]

        def hook():
            nonlocal plan_mc
            if with_prior:
                if mc_between is not None:
                    MC.default_ns, MC.default_ew = \
                        mc_between["ns"], mc_between["ew"]
                    plan_mc = [mc_between["ns"], mc_between["ew"]]
                second[0] = list(plan_mc)
            else:
                second[0] = _mc(pytrs)

        steps += 1
        try:
            val, _obj = _run_probe_op(pytrs, op, hook)
            outcomes.append({"ok": val})
        except Exception as e:  # noqa - outcome value
            outcomes.append({"raised": type(e).__name__})
        mc_log.append([first, second[0]])
    return {"outcomes": outcomes, "mc_log": mc_log, "state": state,
            "fired": fired, "isolation": isolation, "steps": steps,
            "mc_leaks": mc_leaks}


def _shares_parts(pytrs, obj, src):
    """obj is src, or holds the same TRS objects / the same Config object
    (a caller's own aliasing) -- then a change made to src legitimately
    shows on obj."""
    def parts(x):
        out = set()
        if isinstance(x, pytrs.TRS):
            out.add(id(x))
        if isinstance(x, pytrs.TRSList):
            out |= {id(t) for t in x}
        c = getattr(x, "config", None)
        if isinstance(c, pytrs.Config):
            out.add(id(c))
        if isinstance(x, pytrs.PLSSDesc):
            out |= {id(t.config) for t in x.tracts}
        if isinstance(x, pytrs.TractList):
            out |= {id(t.config) for t in x}
        return out
    if obj is src and isinstance(src, (pytrs.TRS, pytrs.TRSList)):
        return True
    return bool(parts(obj) & parts(src))


def _shares_tracts(pytrs, obj, src):
    """obj legitimately aliases src's tracts (e.g. a TractList built from it)."""
    def tracts_of(x):
        if isinstance(x, pytrs.PLSSDesc):
            return list(x.tracts)
        if isinstance(x, pytrs.TractList):
            return list(x)
        if isinstance(x, pytrs.Tract):
            return [x]
        return []
    a, b = tracts_of(obj), tracts_of(src)
    return any(x is y for x in a for y in b)


SWEEP_MAX = 160


def _count_lines(probe_op):
    from ..interrupt import LineCounter
    pytrs = ensure_repo_on_path()
    with LineCounter(REPO) as lc:
        try:
            _run_probe_op(pytrs, probe_op)
        except Exception:  # noqa
            pass
    return lc.count


def _sweep(plan, bump):
    """Interrupt a prior copy of the first probe call at every traced line."""
    target = plan["probe"][0]
    n_lines = fork_call(_count_lines, (target,))
    bump("sweep_runs")
    bump("sweep_lines_total", n_lines)
    found = []
    stride = max(1, -(-n_lines // SWEEP_MAX))
    if stride > 1:
        bump("sweep_strided")
    for n in range(1, n_lines + 1, stride):
        derived = {"machine": NAME,
                   "prior": list(plan["prior"]) + [
                       {"o": "interrupt", "at": n},
                       {"o": "other", "probe": copy.deepcopy(target)}],
                   "probe": plan["probe"], "mc_between": plan.get("mc_between"),
                   "sweep": False}
        res = check_plan(derived)
        bump("sweep_positions")
        if res["stats"].get("interrupt_fired"):
            bump("sweep_interrupts_fired")
        for f in res["failures"]:
            f = dict(f)
            f["plan_override"] = derived
            found.append(f)
        if found:
            break
    return found


def check_plan(plan):
    failures, stats = [], {}

    def bump(k, v=1):
        stats[k] = stats.get(k, 0) + v

    if plan.get("sweep"):
        failures += _sweep(plan, bump)

    main = fork_call(run, (plan["prior"], plan["probe"], plan.get("mc_between"),
                           True, None))
    ref = fork_call(run, ([], plan["probe"], None, False, main["mc_log"]))
    for j, (a, b) in enumerate(zip(main["outcomes"], ref["outcomes"])):
        path, order_only = compare(a, b, exact=True)
        if path is not None:
            failures.append({
                "oracle": "probe:" + plan["probe"][j]["p"],
                "path": path, "path_class": path_class(path),
                "detail": {"probe_index": j, "probe": plan["probe"][j],
                           "after_prior": excerpt(a, path),
                           "pristine": excerpt(b, path),
                           "mc_in_force": main["mc_log"][j],
                           "state": main["state"]}})
    for leak in main["mc_leaks"][:1]:
        failures.append({
            "oracle": "masterconfig_written_by_library",
            "path": "MasterConfig", "path_class": "MasterConfig",
            "detail": leak})
    for iso in main["isolation"]:
        failures.append({
            "oracle": "isolation", "path": iso["path"],
            "path_class": path_class(iso["path"]), "detail": iso})
    for k, v in main["fired"].items():
        bump(k, v)
    st = main["state"]
    interesting = []
    if st.get("cache_holds_probe_key"):
        interesting.append("cache_holds_probe_key")
    if st.get("cache_disabled"):
        interesting.append("cache_disabled_at_probe")
    if main["fired"].get("cache_clear"):
        interesting.append("cache_cleared")
    if st.get("mc_changes"):
        interesting.append("mc_changed")
    if st["mc_at_probe"] != ["n", "w"]:
        interesting.append("mc_left_toggled")
    if main["fired"].get("mutations"):
        interesting.append("record_mutated")
    if main["fired"].get("interrupt_fired"):
        interesting.append("interrupt_fired")
    if st.get("uid", 0) >= 10:
        interesting.append("uid_advanced>=10")
    if plan.get("mc_between"):
        interesting.append("mc_toggled_between_probe_calls")
    if st.get("cache_unmeasured"):
        bump("cache_unmeasured")
    for k in interesting:
        bump("probe_time:" + k)
    log = {"main": main["outcomes"], "ref": ref["outcomes"],
           "mc": main["mc_log"], "fired": main["fired"]}
    shape = ",".join(op["o"][:2] for op in plan["prior"]) + "|" + \
        ",".join(op["p"] for op in plan["probe"])
    return {"failures": failures, "stats": stats,
            "nontrivial": bool(interesting), "steps": main["steps"] + ref["steps"],
            "execs": 2, "log": digest(log), "shape": shape}


# --------------------------------------------------------------------------
# fresh-interpreter cross-validation of "pristine fork == fresh interpreter"
# --------------------------------------------------------------------------

def fresh_outcomes(probe, mc_script):
    """Run in a brand-new interpreter (see check.py probe-fresh)."""
    r = run([], probe, None, False, mc_script)
    return digest(r["outcomes"])


def post_batch(agg, seed, tier):
    import json
    import os
    import subprocess
    import sys
    from concurrent.futures import ThreadPoolExecutor
    from ..rng import rng_for
    from ..engine import VERIF, HarnessError
    n = 48 if tier == "quick" else 512
    n = min(n, agg["runs"])
    jobs = []
    for i in range(n):
        plan = gen_plan(rng_for(seed, PROP, i))
        main = fork_call(run, ([], plan["probe"], None, False, None))
        mc_script = [[["n", "w"], None] for _ in plan["probe"]]
        jobs.append((i, plan["probe"], mc_script, digest(main["outcomes"])))

    def one(job):
        i, probe, mc_script, want = job
        env = dict(os.environ)
        env["PYTHONHASHSEED"] = str(1000 + i)
        env["VERIF_NO_REEXEC"] = "1"
        p = subprocess.run(
            [sys.executable, os.path.join(VERIF, "check.py"), "probe-fresh"],
            input=json.dumps({"probe": probe, "mc_script": mc_script}),
            env=env, capture_output=True, text=True, timeout=120)
        got = p.stdout.strip().splitlines()[-1] if p.stdout.strip() else ""
        return i, want, got, p.stderr[-500:]

    bad = []
    with ThreadPoolExecutor(max_workers=8) as ex:
        for i, want, got, err in ex.map(one, jobs):
            if want != got:
                bad.append((i, want, got, err))
    if bad:
        agg["harness_errors"].append(
            (bad[0][0], f"pristine fork != fresh interpreter for {len(bad)} "
                        f"of {n} probes: {bad[0]}"))
    return {"fresh_interpreter_cross_checks": n,
            "fresh_interpreter_disagreements": len(bad)}


# --------------------------------------------------------------------------
# shrinking
# --------------------------------------------------------------------------

def shrink(plan):
    prior, probe = plan["prior"], plan["probe"]
    n = len(prior)
    size = n // 2
    while size >= 1:
        for s in range(0, n - size + 1):
            p2 = copy.deepcopy(plan)
            p2["prior"] = prior[:s] + prior[s + size:]
            yield p2
        size //= 2
    if len(probe) > 1:
        for j in range(len(probe)):
            p2 = copy.deepcopy(plan)
            p2["probe"] = probe[:j] + probe[j + 1:]
            yield p2
    if plan.get("mc_between"):
        p2 = copy.deepcopy(plan)
        p2["mc_between"] = None
        yield p2
    if plan.get("sweep"):
        p2 = copy.deepcopy(plan)
        p2["sweep"] = False
        yield p2
    for k, op in enumerate(prior):
        if op["o"] == "prewarm" and len(op["strings"]) > 1:
            for j in range(len(op["strings"])):
                p2 = copy.deepcopy(plan)
                p2["prior"][k]["strings"] = \
                    op["strings"][:j] + op["strings"][j + 1:]
                yield p2
        if op["o"] == "other":
            for simple in ({"p": "trs", "s": "154n97w14"},
                           {"p": "desc", "text": "T154N-R97W Sec 14: NE/4",
                            "config": None, "kw": {}}):
                if op["probe"] != simple:
                    p2 = copy.deepcopy(plan)
                    p2["prior"][k]["probe"] = simple
                    yield p2
        if op["o"] == "interrupt" and op["at"] > 1:
            p2 = copy.deepcopy(plan)
            p2["prior"][k]["at"] = op["at"] // 2
            yield p2
    for j, op in enumerate(probe):
        for key in ("kw", "pkw"):
            for kk in list(op.get(key, {})):
                p2 = copy.deepcopy(plan)
                del p2["probe"][j][key][kk]
                yield p2
        if op.get("config"):
            p2 = copy.deepcopy(plan)
            p2["probe"][j]["config"] = None
            yield p2
        if "text" in op:
            for t in ("T154N-R97W Sec 14: NE/4", "T154-R97 Sec 14: NE/4",
                      "NE/4", "Lots 1, 1"):
                if len(t) < len(op["text"]):
                    p2 = copy.deepcopy(plan)
                    p2["probe"][j]["text"] = t
                    yield p2


def describe(plan):
    return f"{len(plan['prior'])} prior ops | " + \
        ",".join(op["p"] for op in plan["probe"])


RULE = (
    "Each run draws (random.Random(derive(VERIF_SEED,'C15',i))) a probe of "
    "1-3 calls on fresh objects (PLSSDesc, PLSSDesc created waiting and "
    "parsed later, Tract, Tract.from_twprgesec, set_twprgesec, TRS, "
    "TRS.from_twprgesec, trs_to_dict x3 spellings, find_twprge, find_sec, "
    "TRSList / TractList sort-filter-group, 'i' sort after scrambling) and 0-15 "
    "prior operations from a per-run random subset of {other probe-kind "
    "calls, pre-warming the cache with the probe's own keys and case / "
    "whitespace / empty variants, cache clear/off/on, MasterConfig set / "
    "restore (or left toggled), deep mutation of records returned by "
    "conversion functions, calls failing with documented errors, calls cut by "
    "an injected SimInterrupt at a traced line}. The probe after the prior "
    "activity is compared (exactly) with the probe alone in another fork of "
    "the pristine process under the MasterConfig values in force at each "
    "call. A run is NON-TRIVIAL iff at probe time at least one of: cache "
    "held a probe key, cache disabled, cache cleared earlier, MasterConfig "
    "changed >= once, left toggled, or toggled between probe calls, a "
    "returned record was mutated, an interrupt fired inside pyTRS code, "
    "Tract UID counter >= 10. distinct = distinct plan digests among those."
)
ASSUMPTIONS = [
    "a fork of the pristine zygote (pytrs imported, never called) stands for "
    "a fresh interpreter; cross-checked per batch against genuinely fresh "
    "interpreters under other PYTHONHASHSEEDs (a disagreement is a "
    "HARNESS-ERROR)",
    "prior activity uses only the public API plus the two switches C15's "
    "anchors name (TRS._USE_CACHE, TRS._clear_cache), looked up with getattr "
    "and reported as unavailable if absent",
    "faults are placed only in the prior activity: C15 speaks about what the "
    "*later* call returns",
    "the PLSSDesc/Tract a mutated record was extracted from is exempt from the "
    "isolation invariant (to_dict returns the tract's own list objects)",
]
COMPONENTS = {
    "real": ["all of pytrs (imported from the working tree)",
             "CPython sys.settrace as the interruption seam"],
    "stubbed": [],
}
