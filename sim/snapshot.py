"""
Type-directed snapshots of pyTRS objects as plain JSON values, plus the
comparison used by the history oracles.

* attributes are discovered with ``vars()`` plus the public data descriptors
  of the class (public names only) so that a refactor which adds an
  attribute, or turns one into a property / slot, shows up on both sides of
  a comparison instead of breaking or blinding the harness;
* unknown object types encode as their type name only (never ``repr``, which
  embeds addresses);
* two projections: *full* (settings + results + element identities; used for
  before/after comparison of the same object) and *results-only* (drops the
  setting attributes; used to compare two different objects).
"""

import json
import types

SETTING_KEYS = (
    "default_ns", "default_ew", "layout", "wait_to_parse", "parse_qq",
    "clean_qq", "sec_colon_required", "sec_colon_cautious",
    "suppress_lot_divs", "ocr_scrub", "segment", "qq_depth", "qq_depth_min",
    "qq_depth_max", "break_halves", "sec_within",
    # derived from / bookkeeping of settings:
    "config", "layout_specified", "require_colon",
)

TRACT_PROPS = (
    "trs", "twp", "twp_num", "twp_ns", "rge", "rge_num", "rge_ew", "twprge",
    "sec", "sec_num", "twp_undef", "rge_undef", "sec_undef",
    "lots_qqs", "ilots", "flags", "flag_lines", "desc_is_flawed",
)
DESC_PROPS = ("flags", "flag_lines", "desc_is_flawed", "require_colon")
TRS_PROPS = (
    "trs", "twp", "twp_num", "twp_ns", "rge", "rge_num", "rge_ew", "twprge",
    "sec", "sec_num", "twp_undef", "rge_undef", "sec_undef",
)

# Keys whose list values are compared as multisets when two *different*
# histories are compared (see DESIGN 2.5 / 4.1: C14 promises "the same flags
# without accumulating duplicates", not an order).
FLAG_KEYS = ("w_flags", "e_flags", "w_flag_lines", "e_flag_lines",
             "flags", "flag_lines")


class Ctx:
    """Per-process identity table (object -> small int, by first sight)."""

    def __init__(self):
        self._ids = {}
        self._keep = []

    def ident(self, obj):
        k = id(obj)
        if k not in self._ids:
            self._ids[k] = len(self._ids)
            self._keep.append(obj)  # keep alive: ids must not be recycled
        return self._ids[k]


def _safe_get(obj, name):
    try:
        return True, getattr(obj, name)
    except Exception as e:  # noqa - a raising property is an outcome value
        return False, type(e).__name__


def enc(v, ctx=None, full=False, depth=0):
    """Encode any value reachable from the public API."""
    import pytrs
    if depth > 12:
        return {"__deep": type(v).__name__}
    if v is None or isinstance(v, (bool, int, str)):
        return v
    if isinstance(v, float):
        return {"__f": repr(v)}
    if isinstance(v, tuple):
        return {"__t": [enc(x, ctx, full, depth + 1) for x in v]}
    if isinstance(v, list):
        return [enc(x, ctx, full, depth + 1) for x in v]
    if isinstance(v, dict):
        return {"__d": [[enc(k, ctx, full, depth + 1),
                         enc(x, ctx, full, depth + 1)] for k, x in v.items()]}
    if isinstance(v, pytrs.Tract):
        return snap_tract(v, ctx, full, depth)
    if isinstance(v, pytrs.PLSSDesc):
        return snap_desc(v, ctx, full, depth)
    if isinstance(v, pytrs.TRS):
        return snap_trs(v)
    if isinstance(v, pytrs.TractList):
        out = {"__TL": [enc(x, ctx, full, depth + 1) for x in v]}
        if full and ctx is not None:
            out["__id"] = ctx.ident(v)
        return out
    if isinstance(v, pytrs.TRSList):
        return {"__TRSL": [enc(x, ctx, full, depth + 1) for x in v]}
    if isinstance(v, pytrs.Config):
        return {"__cfg": _cfg_text(v)}
    if isinstance(v, types.GeneratorType):
        return {"__gen": [enc(x, ctx, full, depth + 1) for x in v]}
    if isinstance(v, (set, frozenset)):
        return {"__set": sorted(json.dumps(enc(x, ctx, full, depth + 1),
                                           sort_keys=True) for x in v)}
    return {"__type": type(v).__name__}


def _cfg_text(cfg):
    try:
        return cfg.decompile_to_text()
    except Exception as e:  # noqa
        return {"__raised": type(e).__name__}


_DESCRIPTORS = {}


def _class_descriptors(cls):
    """Public data descriptors of a class (properties, slots, generated
    descriptors): a refactor may turn a plain attribute into one of these and
    it stays just as observable."""
    if cls not in _DESCRIPTORS:
        import inspect
        names = []
        for klass in cls.__mro__:
            for name, v in vars(klass).items():
                if name.startswith("_") or name in names:
                    continue
                if inspect.isdatadescriptor(v):
                    names.append(name)
        _DESCRIPTORS[cls] = tuple(sorted(names))
    return _DESCRIPTORS[cls]


def _obj_fields(obj, props, ctx, full, depth):
    out = {}
    try:
        attrs = vars(obj)
    except TypeError:
        attrs = {}
    for k in attrs:
        if k.startswith("_"):
            continue
        out[k] = enc(attrs[k], ctx, full, depth + 1)
    props = tuple(props) + tuple(
        n for n in _class_descriptors(type(obj))
        if n not in props and n not in out and n != "config")
    for p in props:
        ok, val = _safe_get(obj, p)
        out[p] = enc(val, ctx, full, depth + 1) if ok else {"__raised": val}
    ok, cfg = _safe_get(obj, "config")
    if ok:
        out["config"] = enc(cfg, ctx, full, depth + 1)
    if not full:
        for k in SETTING_KEYS:
            out.pop(k, None)
    return out


def snap_tract(t, ctx=None, full=False, depth=0):
    out = _obj_fields(t, TRACT_PROPS, ctx, full, depth)
    out["__cls"] = "Tract"
    if full and ctx is not None:
        out["__id"] = ctx.ident(t)
    return out


def snap_desc(d, ctx=None, full=False, depth=0):
    out = _obj_fields(d, DESC_PROPS, ctx, full, depth)
    out["__cls"] = "PLSSDesc"
    if full and ctx is not None:
        out["__id"] = ctx.ident(d)
    return out


def snap_trs(t):
    out = {"__cls": "TRS"}
    for p in TRS_PROPS:
        ok, val = _safe_get(t, p)
        out[p] = val if ok else {"__raised": val}
    return out


# --------------------------------------------------------------------------
# comparison
# --------------------------------------------------------------------------

def _canon(x):
    return json.dumps(x, sort_keys=True, ensure_ascii=True)


def normalise(x, key=None):
    """Order-insensitive form for flag lists and dict payloads."""
    if isinstance(x, dict):
        if "__d" in x and len(x) == 1:
            return {"__d": sorted((normalise(p) for p in x["__d"]), key=_canon)}
        return {k: normalise(v, k) for k, v in x.items()}
    if isinstance(x, list):
        items = [normalise(v) for v in x]
        if key in FLAG_KEYS:
            items = sorted(items, key=_canon)
        return items
    return x


def first_diff(a, b, path=""):
    """Path of the first difference between two JSON values, or None."""
    if type(a) is not type(b):
        return path or "<root>"
    if isinstance(a, dict):
        for k in a:
            if k not in b:
                return f"{path}.{k}(missing-right)"
        for k in b:
            if k not in a:
                return f"{path}.{k}(missing-left)"
        for k in a:
            d = first_diff(a[k], b[k], f"{path}.{k}")
            if d:
                return d
        return None
    if isinstance(a, list):
        if len(a) != len(b):
            return f"{path}(len {len(a)}!={len(b)})"
        for i, (x, y) in enumerate(zip(a, b)):
            d = first_diff(x, y, f"{path}[{i}]")
            if d:
                return d
        return None
    return None if a == b else (path or "<root>")


def path_class(path):
    """Abstract indices and lengths away: the failure *class* of a diff."""
    import re
    if path is None:
        return None
    p = re.sub(r"\[\d+\]", "[*]", path)
    p = re.sub(r"\(len \d+!=\d+\)", "(len)", p)
    return p


def compare(a, b, exact=False):
    """
    Returns (path, order_only).  ``path`` is None when equal under the chosen
    mode.  With ``exact=False`` flag lists and dicts compare as multisets;
    ``order_only`` is True when the values differ exactly but agree as
    multisets (reported as a probe, never as a violation).
    """
    d_exact = first_diff(a, b)
    if d_exact is None:
        return None, False
    if exact:
        return d_exact, False
    d_norm = first_diff(normalise(a), normalise(b))
    if d_norm is None:
        return None, True
    return d_norm, False


def digest(x):
    import hashlib
    return hashlib.sha256(_canon(x).encode()).hexdigest()


def excerpt(x, path, width=300):
    """Value at ``path`` (best effort) for failure reports."""
    import re
    cur = x
    try:
        for tok in re.findall(r"\.([A-Za-z_][\w]*)|\[(\d+)\]", path or ""):
            name, idx = tok
            if name:
                cur = cur[name]
            else:
                cur = cur[int(idx)]
    except Exception:  # noqa
        pass
    s = _canon(cur)
    return s if len(s) <= width else s[:width] + "..."
