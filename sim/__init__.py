"""Deterministic simulation harness for pyTRS (see /verif/DESIGN.md)."""
