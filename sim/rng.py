"""
Seed derivation.  One integer (VERIF_SEED) decides a whole batch; run *i* of
property *p* uses ``derive(VERIF_SEED, p, i)``.  ``random.Random(seed_i)`` is
then the only PRNG a plan generator may touch; execution never draws.
"""

import random

MASK = (1 << 64) - 1


def splitmix64(x: int) -> int:
    x = (x + 0x9E3779B97F4A7C15) & MASK
    z = x
    z = ((z ^ (z >> 30)) * 0xBF58476D1CE4E5B9) & MASK
    z = ((z ^ (z >> 27)) * 0x94D049BB133111EB) & MASK
    return (z ^ (z >> 31)) & MASK


def _fold(label) -> int:
    if isinstance(label, int):
        return label & MASK
    h = 0xCBF29CE484222325
    for b in str(label).encode("utf-8"):
        h = ((h ^ b) * 0x100000001B3) & MASK
    return h


def derive(seed: int, *labels) -> int:
    """A 64-bit sub-seed; a pure function of its arguments (no ``hash()``)."""
    x = splitmix64(seed & MASK)
    for lab in labels:
        x = splitmix64(x ^ _fold(lab))
    return x


def rng_for(seed: int, *labels) -> random.Random:
    return random.Random(derive(seed, *labels))
