"""
Generators for configuration strings and keyword overrides, shared by the
machines.  Pure Python; draws only from the ``random.Random`` it is given.
"""

LAYOUTS = ("TRS_desc", "desc_STR", "S_desc_TR", "TR_desc_S", "copy_all")

BOOL_SETTINGS = (
    "wait_to_parse", "parse_qq", "clean_qq", "sec_colon_required",
    "sec_colon_cautious", "suppress_lot_divs", "ocr_scrub", "segment",
    "break_halves", "sec_within",
)
INT_SETTINGS = ("qq_depth", "qq_depth_min", "qq_depth_max")
ALL_SETTINGS = ("default_ns", "default_ew", "layout") + BOOL_SETTINGS + INT_SETTINGS

# Settings a Tract consumes (Config._TRACT_ATTRIBUTES in the repo today); the
# machines read the real tuple from pytrs at run time where it matters.
TRACT_LEVEL = ("parse_qq", "clean_qq", "suppress_lot_divs", "qq_depth",
               "qq_depth_min", "qq_depth_max", "break_halves")

PLSS_PARSE_KW = (
    "layout", "default_ns", "default_ew", "clean_up", "parse_qq", "clean_qq",
    "sec_colon_cautious", "sec_colon_required", "segment", "ocr_scrub",
    "sec_within", "qq_depth_min", "qq_depth_max", "qq_depth", "break_halves",
)
TRACT_PARSE_KW = (
    "clean_qq", "suppress_lot_divs", "qq_depth_min", "qq_depth_max",
    "qq_depth", "break_halves",
)


def setting_value(rng, name, allow_false=True):
    if name == "default_ns":
        return rng.choice(("n", "s", "s", "N", "S"))
    if name == "default_ew":
        return rng.choice(("e", "w", "e", "E", "W"))
    if name == "layout":
        return rng.choice(LAYOUTS)
    if name in BOOL_SETTINGS:
        if allow_false and rng.random() < 0.2:
            return False
        return True
    # 0 is a legal depth too (and the classic victim of `if not value`)
    if name == "qq_depth":
        return rng.choice((1, 2, 3, 1, 2, 3, 0))
    if name == "qq_depth_min":
        return rng.choice((1, 2, 3, 3, 0))
    if name == "qq_depth_max":
        return rng.choice((2, 2, 3, 2, 3, 0))
    raise KeyError(name)


def setting_to_text(name, value):
    """Config-string spelling of one setting (my own, not the library's)."""
    if name in ("default_ns", "default_ew"):
        return value
    if name == "layout":
        return value
    if name in BOOL_SETTINGS:
        return name if value is True else f"{name}.{value}"
    return f"{name}.{value}"


def settings_to_text(sigma, rng=None):
    parts = [setting_to_text(k, v) for k, v in sigma.items()]
    sep = ","
    if rng is not None:
        sep = rng.choice((",", ", ", ";", " , "))
    return sep.join(parts)


def gen_sigma(rng, names, lo=0, hi=3, allow_false=True):
    k = rng.randint(lo, min(hi, len(names)))
    chosen = rng.sample(list(names), k)
    # keep a stable, generator-defined order
    chosen.sort(key=lambda n: ALL_SETTINGS.index(n))
    sigma = {}
    for n in chosen:
        sigma[n] = setting_value(rng, n, allow_false)
    if "qq_depth_min" in sigma and "qq_depth_max" in sigma:
        if sigma["qq_depth_max"] < sigma["qq_depth_min"]:
            sigma["qq_depth_max"] = sigma["qq_depth_min"]
    return sigma


def gen_config_text(rng, names=ALL_SETTINGS, lo=0, hi=3, none_ok=True):
    if none_ok and rng.random() < 0.25:
        return None
    return settings_to_text(gen_sigma(rng, names, lo, hi), rng)


def gen_kw(rng, names, lo=0, hi=2):
    """Keyword overrides for a parse call."""
    k = rng.randint(lo, min(hi, len(names)))
    chosen = rng.sample(list(names), k)
    chosen.sort()
    kw = {}
    for n in chosen:
        if n == "clean_up":
            kw[n] = rng.choice((True, False))
        else:
            kw[n] = setting_value(rng, n)
    if "qq_depth_min" in kw and "qq_depth_max" in kw \
            and kw["qq_depth_max"] < kw["qq_depth_min"]:
        kw["qq_depth_max"] = kw["qq_depth_min"]
    return kw
