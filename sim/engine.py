"""
Engine: pristine-zygote forking, seeded batches on all cores, failure
minimisation, replay files, known-findings matching, evidence files.

Determinism contract: for a machine M, ``M.check_plan(M.gen_plan(rng_for(seed,
M.PROP, i)))`` is a pure function of (seed, i, code under REPO).  The engine
itself reads a real clock only for wall-time reporting and hang timeouts
(a hang is a HARNESS-ERROR, never a verdict).
"""

import hashlib
import importlib
import json
import os
import pickle
import select
import signal
import subprocess
import sys
import time
import traceback

VERIF = os.path.dirname(os.path.dirname(os.path.abspath(__file__)))
REPO = os.environ.get("VERIF_REPO", "/repo")
# Where evidence and replay files go.  Only the self-tests redirect this (they
# run the checks against scratch copies of the repository).
OUT = os.environ.get("VERIF_OUT", VERIF)
PY = sys.executable

MACHINES = {
    "C13": "sim.machines.chan",
    "C14": "sim.machines.hist",
    "C15": "sim.machines.proc",
    "C19": "sim.machines.csvfs",
}


class HarnessError(Exception):
    pass


def ensure_repo_on_path():
    """Make ``import pytrs`` resolve to REPO's working tree."""
    if sys.path[0] != REPO:
        sys.path.insert(0, REPO)
    import pytrs
    import pytrs.tractwriter  # noqa - part of the zygote image (C19)
    got = os.path.realpath(os.path.dirname(os.path.dirname(pytrs.__file__)))
    if got != os.path.realpath(REPO):
        raise HarnessError(f"pytrs imported from {got}, expected {REPO}")
    return pytrs


def tree_digest():
    """SHA-256 over the python sources of REPO/pytrs (what the checks run)."""
    h = hashlib.sha256()
    root = os.path.join(REPO, "pytrs")
    files = []
    for dp, dn, fn in os.walk(root):
        dn.sort()
        for f in sorted(fn):
            if f.endswith(".py"):
                files.append(os.path.join(dp, f))
    for f in sorted(files):
        h.update(os.path.relpath(f, REPO).encode())
        with open(f, "rb") as fh:
            h.update(hashlib.sha256(fh.read()).digest())
    return h.hexdigest()


# --------------------------------------------------------------------------
# fork_call: run fn(*args) in a fork of the current (pristine) process
# --------------------------------------------------------------------------

def fork_call(fn, args=(), timeout=30.0):
    r, w = os.pipe()
    sys.stdout.flush()
    sys.stderr.flush()
    pid = os.fork()
    if pid == 0:
        code = 0
        try:
            os.close(r)
            signal.signal(signal.SIGALRM, signal.SIG_DFL)
            signal.alarm(int(timeout) + 5)
            cov = None
            if os.environ.get("VERIF_COV_DIR"):
                import coverage
                cov = coverage.Coverage(
                    data_file=os.path.join(os.environ["VERIF_COV_DIR"],
                                           f"cov.{os.getpid()}"),
                    include=[os.path.join(os.path.realpath(REPO), "pytrs", "*")])
                cov.start()
            try:
                res = ("ok", fn(*args))
            except BaseException:  # noqa - report everything to the parent
                res = ("exc", traceback.format_exc())
            if cov is not None:
                cov.stop()
                cov.save()
            try:
                data = pickle.dumps(res, protocol=4)
            except Exception:  # noqa
                data = pickle.dumps(("exc", "unpicklable result:\n"
                                     + traceback.format_exc()))
            off = 0
            while off < len(data):
                off += os.write(w, data[off:off + (1 << 16)])
            os.close(w)
        except BaseException:  # noqa
            code = 3
        finally:
            os._exit(code)
    os.close(w)
    chunks = []
    deadline = time.monotonic() + timeout
    try:
        while True:
            remaining = deadline - time.monotonic()
            if remaining <= 0:
                try:
                    os.kill(pid, signal.SIGKILL)
                except ProcessLookupError:
                    pass
                os.waitpid(pid, 0)
                raise HarnessError(f"child timed out after {timeout}s in "
                                   f"{getattr(fn, '__name__', fn)}")
            rl, _, _ = select.select([r], [], [], min(remaining, 1.0))
            if not rl:
                continue
            b = os.read(r, 1 << 16)
            if not b:
                break
            chunks.append(b)
    finally:
        os.close(r)
    _, status = os.waitpid(pid, 0)
    data = b"".join(chunks)
    if not data:
        raise HarnessError(f"child died without result (status {status})")
    kind, val = pickle.loads(data)
    if kind == "exc":
        raise HarnessError("exception in harness child:\n" + val)
    return val


# --------------------------------------------------------------------------
# machines
# --------------------------------------------------------------------------

def load_machine(prop):
    return importlib.import_module(MACHINES[prop])


def canon(x):
    return json.dumps(x, sort_keys=True, ensure_ascii=True)


def plan_digest(plan):
    return hashlib.sha256(canon(plan).encode()).hexdigest()[:24]


def signature(failure):
    return f"{failure['oracle']}|{failure.get('path_class')}"


# --------------------------------------------------------------------------
# batch
# --------------------------------------------------------------------------

def _init_worker():
    ensure_repo_on_path()
    signal.signal(signal.SIGINT, signal.SIG_IGN)


def _run_chunk(prop, seed, idxs, want_logs=False):
    """Worker side: returns compact per-run records for a chunk of indices."""
    from .rng import rng_for
    m = load_machine(prop)
    out = []
    for i in idxs:
        rec = {"i": i}
        try:
            plan = m.gen_plan(rng_for(seed, prop, i))
            res = m.check_plan(plan)
            rec["plan_digest"] = plan_digest(plan)
            rec["log"] = res["log"]
            rec["nontrivial"] = bool(res["nontrivial"])
            rec["steps"] = res.get("steps", 0)
            rec["execs"] = res.get("execs", 1)
            rec["stats"] = res.get("stats", {})
            rec["shape"] = res.get("shape")
            rec["failures"] = res["failures"]
            if res["failures"] or i < 4:
                rec["plan"] = plan
        except HarnessError as e:
            rec["harness_error"] = str(e)[-2000:]
        except Exception:  # noqa
            rec["harness_error"] = traceback.format_exc()[-2000:]
        out.append(rec)
    return out


def run_batch(prop, seed, n_runs, workers, start=0, progress=None,
              budget_s=None):
    """Run indices [start, start+n_runs) of the batch.  Returns an aggregate."""
    from concurrent.futures import ProcessPoolExecutor, as_completed
    import multiprocessing as mp
    t0 = time.monotonic()
    idxs = list(range(start, start + n_runs))
    chunk = max(1, min(64, n_runs // (workers * 8) or 1))
    chunks = [idxs[k:k + chunk] for k in range(0, len(idxs), chunk)]
    agg = {
        "runs": 0, "stats": {}, "nontrivial": set(), "shapes": set(),
        "failures": [], "harness_errors": [], "logs": {}, "samples": [],
        "steps": 0, "execs": 0, "skipped_for_budget": 0,
    }
    if workers <= 1:
        _init_worker()
        results_iter = (_run_chunk(prop, seed, c) for c in chunks)
        pool = None
    else:
        pool = ProcessPoolExecutor(
            max_workers=workers, mp_context=mp.get_context("fork"),
            initializer=_init_worker)
        futs = [pool.submit(_run_chunk, prop, seed, c) for c in chunks]
        results_iter = (f.result() for f in as_completed(futs))
    try:
        for recs in results_iter:
            for rec in recs:
                agg["runs"] += 1
                if "harness_error" in rec:
                    agg["harness_errors"].append((rec["i"], rec["harness_error"]))
                    continue
                agg["logs"][rec["i"]] = rec["log"]
                agg["steps"] += rec["steps"]
                agg["execs"] += rec["execs"]
                for k, v in rec["stats"].items():
                    agg["stats"][k] = agg["stats"].get(k, 0) + v
                if rec["nontrivial"]:
                    agg["nontrivial"].add(rec["plan_digest"])
                if rec.get("shape"):
                    agg["shapes"].add(rec["shape"])
                for f in rec["failures"]:
                    f = dict(f)
                    f["i"] = rec["i"]
                    f["plan"] = f.pop("plan_override", None) or rec["plan"]
                    agg["failures"].append(f)
                if rec["i"] < start + 4 and "plan" in rec:
                    agg["samples"].append((rec["i"], rec["plan"]))
            if progress:
                progress(agg)
            if budget_s is not None and time.monotonic() - t0 > budget_s \
                    and pool is not None:
                for f in futs:
                    f.cancel()
    finally:
        if pool is not None:
            pool.shutdown(wait=True, cancel_futures=True)
    agg["skipped_for_budget"] = n_runs - agg["runs"]
    agg["wall_s"] = time.monotonic() - t0
    h = hashlib.sha256()
    for i in sorted(agg["logs"]):
        h.update(f"{i}:{agg['logs'][i]};".encode())
    agg["batch_digest"] = h.hexdigest()
    agg["samples"].sort(key=lambda p: p[0])
    return agg


# --------------------------------------------------------------------------
# minimisation (greedy; every candidate is a valid plan by construction)
# --------------------------------------------------------------------------

def fails_same(m, plan, sig):
    res = m.check_plan(plan)
    for f in res["failures"]:
        if signature(f) == sig:
            return f
    return None


def minimise(m, plan, sig, budget=400, log=None):
    cur = plan
    spent = 0
    improved = True
    while improved and spent < budget:
        improved = False
        for cand in m.shrink(cur):
            if spent >= budget:
                break
            spent += 1
            try:
                f = fails_same(m, cand, sig)
            except HarnessError:
                continue
            if f is not None:
                cur = cand
                improved = True
                break
    if log:
        log(f"minimised with {spent} executions")
    return cur


# --------------------------------------------------------------------------
# known findings
# --------------------------------------------------------------------------

def load_known():
    path = os.path.join(VERIF, "known_findings.jsonl")
    known, fixed = [], []
    if not os.path.exists(path):
        return known, fixed
    with open(path) as fh:
        for line in fh:
            line = line.strip()
            if not line or line.startswith("#"):
                continue
            if line.startswith("fixed:"):
                fixed.append(line)
                continue
            ent = json.loads(line)
            if ent.get("status") == "known":
                known.append(ent)
            else:
                fixed.append(line)
    return known, fixed


def match_known(known, prop, failure, plan):
    import re
    for ent in known:
        if ent.get("property") != prop:
            continue
        sig = ent.get("signature", {})
        if sig.get("oracle") and sig["oracle"] != failure["oracle"]:
            continue
        if sig.get("path_class_re") and not re.search(
                sig["path_class_re"], failure.get("path_class") or ""):
            continue
        if sig.get("plan_re") and not re.search(sig["plan_re"], canon(plan)):
            continue
        return ent
    return None


# --------------------------------------------------------------------------
# replay files
# --------------------------------------------------------------------------

def write_replay(prop, seed, i, plan, failure, minimised_from):
    d = os.path.join(OUT, "replays")
    os.makedirs(d, exist_ok=True)
    sigh = hashlib.sha256(signature(failure).encode()).hexdigest()[:6]
    path = os.path.join(
        d, f"{prop}-{seed}-{i}-{plan_digest(plan)[:8]}-{sigh}.json")
    doc = {
        "property": prop,
        "machine": MACHINES[prop],
        "batch_seed": seed,
        "run_index": i,
        "signature": signature(failure),
        "failure": {k: failure[k] for k in failure
                    if k not in ("plan", "i")},
        "plan": plan,
        "original_plan_digest": minimised_from,
        "repo_tree_digest": tree_digest(),
        "python": sys.version.split()[0],
        "replay_cmd": f"{PY} {os.path.join(VERIF, 'check.py')} replay {path}",
    }
    with open(path, "w") as fh:
        # no sort_keys: key order inside a plan can be significant
        json.dump(doc, fh, indent=1)
        fh.write("\n")
    return path


def replay_file(path, quiet=False):
    """Replay in *this* process (used by ``check.py replay``)."""
    ensure_repo_on_path()
    with open(path) as fh:
        doc = json.load(fh)
    m = load_machine(doc["property"])
    res = m.check_plan(doc["plan"])
    sigs = [signature(f) for f in res["failures"]]
    same = doc["signature"] in sigs
    if not quiet:
        print(f"replay {path}: expected {doc['signature']!r}; got {sigs}")
        for f in res["failures"]:
            print("  ", json.dumps({k: f[k] for k in f if k != 'plan'})[:1200])
    return same, res


def replay_fresh(path):
    """Replay in a brand-new interpreter under another hash seed."""
    env = dict(os.environ)
    env["PYTHONHASHSEED"] = "1234"
    env["VERIF_NO_REEXEC"] = "1"
    p = subprocess.run(
        [PY, os.path.join(VERIF, "check.py"), "replay", path, "--quiet"],
        env=env, capture_output=True, text=True, timeout=600)
    return p.returncode == 1, p.stdout + p.stderr


# --------------------------------------------------------------------------
# evidence
# --------------------------------------------------------------------------

def write_evidence(prop, doc):
    d = os.path.join(OUT, "evidence")
    os.makedirs(d, exist_ok=True)
    path = os.path.join(d, f"{prop}.json")
    tmp = path + ".tmp"
    with open(tmp, "w") as fh:
        json.dump(doc, fh, indent=1, sort_keys=True)
        fh.write("\n")
    os.replace(tmp, path)
    return path
