"""
In-memory file system with raw-I/O fault injection.

Seam: ``builtins.open`` / ``io.open`` (so ``Path.open`` and ``os.fdopen`` are
covered too), ``os.open`` / ``os.write`` / ``os.close`` on the descriptors it
hands out, ``os.stat`` / ``os.lstat`` / ``os.access`` (behind ``Path.exists`` /
``os.path.exists``) and ``os.rename/replace/remove/unlink/fsync/listdir`` are
replaced, for the duration of a ``with fs.installed():`` block, by dispatchers
that route paths under the virtual root ``/simfs/`` (and the fake descriptors
>= 1 000 000) to this module and everything else to the real functions.

The Python-level I/O stack is real: ``io.TextIOWrapper(io.BufferedWriter(
SimRaw, buffer_size=b), newline=...)`` with ``_CHUNK_SIZE = c``; only the raw
file object and ``stat`` are stubs.  Every raw call (stat / open / write /
close) is numbered; a fault plan ``{"at": i, "kind": k}`` fires at call i.

Fault kinds
  stat_fail   stat   OSError(EIO)
  open_fail   open   OSError(EACCES|EMFILE|ENOSPC) before create/truncate
  write_fail  write  OSError(ENOSPC|EIO), nothing of this call persisted
  short       write  half the bytes persisted, count returned (legal)
  close_fail  close  handle released, then OSError(EIO)
  rename_fail / remove_fail / fsync_fail   (only reached if the code under
              test uses os.rename/replace/remove/unlink/fsync on sim paths)
  crash       any    power loss: half of the current write persisted, every
                     open handle fenced (later writes from the dying run
                     vanish), SimCrash raised into the caller
"""

import builtins
import contextlib
import errno
import io
import os
import stat as stat_mod

ROOT = "/simfs/"


class SimCrash(BaseException):
    """Power loss.  BaseException so that no `except Exception` hides it."""


def _is_sim(path):
    try:
        p = os.fspath(path)
    except TypeError:
        return False
    if isinstance(p, bytes):
        p = p.decode("utf-8", "replace")
    return isinstance(p, str) and p.startswith(ROOT)


class SimRaw(io.RawIOBase):
    def __init__(self, fs, path, gen, append=True):
        super().__init__()
        self.fs, self.path, self.gen = fs, path, gen
        self.append = append
        self._sim_closed = False
        self.name = path
        self._pos = len(fs.files.get(path, b""))

    def writable(self):
        return True

    def fileno(self):
        # a fake descriptor, only meaningful to the patched os.fsync
        return self.fs.fake_fd(self)

    def readable(self):
        return False

    def seekable(self):
        return True

    def tell(self):
        return self._pos

    def seek(self, offset, whence=0):
        size = len(self.fs.files.get(self.path, b""))
        if whence == 0:
            pos = offset
        elif whence == 1:
            pos = self._pos + offset
        else:
            pos = size + offset
        if pos != size and pos != self._pos:
            # writing anywhere but at the end is not something a CSV
            # appender does; refuse loudly rather than simulate it wrongly
            raise OSError(errno.ESPIPE, "simfs: only sequential writes")
        self._pos = pos
        return pos

    def write(self, b):
        data = bytes(b)
        n = self.fs.raw_write(self, data)
        self._pos += n or 0
        return n

    def truncate(self, size=None):
        if size is None:
            size = self._pos
        return self.fs.raw_truncate(self, size)

    def close(self):
        if self._sim_closed:
            return
        self._sim_closed = True
        try:
            self.fs.raw_close(self)
        finally:
            super().close()


class SimFS:
    def __init__(self, buffer_size=8192, chunk_size=8192, fault=None):
        self.files = {}            # path -> bytearray (durable content)
        self.gen = 0               # bumped by a crash: fences old handles
        self.buffer_size = buffer_size
        self.chunk_size = chunk_size
        self.fault = fault         # {"at": int, "kind": str, "errno": int}
        self.calls = 0
        self.trace = []            # (index, kind, path, nbytes, op_tag)
        self.fired = None          # (index, kind) once the fault has fired
        self.op_tag = None         # set by the driver: which op is running
        self.open_handles = []
        self.crashed = False
        self._fds = {}

    # ---- fault machinery -------------------------------------------------
    def _enter(self, kind, path, nbytes=0):
        """Number the call; return the fault kind that fires here (or None)."""
        idx = self.calls
        self.calls += 1
        self.trace.append((idx, kind, path, nbytes, self.op_tag))
        f = self.fault
        if f is not None and self.fired is None and f["at"] == idx:
            applicable = {
                "stat": ("stat_fail", "crash"),
                "open": ("open_fail", "crash"),
                "write": ("write_fail", "short", "crash"),
                "close": ("close_fail", "crash"),
                "truncate": ("crash",),
                "rename": ("rename_fail", "crash"),
                "remove": ("remove_fail", "crash"),
                "fsync": ("fsync_fail", "crash"),
            }[kind]
            if f["kind"] in applicable:
                self.fired = (idx, f["kind"], kind, path, self.op_tag)
                return f["kind"]
        return None

    def _crash(self):
        self.crashed = True
        self.gen += 1
        self.open_handles = []
        raise SimCrash()

    def _oserror(self, default):
        code = (self.fault or {}).get("errno") or default
        return OSError(code, os.strerror(code))

    def fake_fd(self, raw):
        for fd, r in self._fds.items():
            if r is raw:
                return fd
        fd = 1_000_000 + len(self._fds)
        self._fds[fd] = raw
        return fd

    # ---- raw operations --------------------------------------------------
    def rename(self, src, dst, replace=False):
        src, dst = os.fspath(src), os.fspath(dst)
        fk = self._enter("rename", dst)
        if fk == "rename_fail":
            raise self._oserror(errno.EIO)
        if fk == "crash":
            self._crash()
        if src not in self.files:
            raise FileNotFoundError(errno.ENOENT, os.strerror(errno.ENOENT), src)
        self.files[dst] = self.files.pop(src)

    def remove(self, path):
        path = os.fspath(path)
        fk = self._enter("remove", path)
        if fk == "remove_fail":
            raise self._oserror(errno.EIO)
        if fk == "crash":
            self._crash()
        if path not in self.files:
            raise FileNotFoundError(errno.ENOENT, os.strerror(errno.ENOENT), path)
        del self.files[path]

    def fsync(self, fd):
        raw = self._fds.get(fd)
        if raw is None or raw.gen != self.gen:
            return
        fk = self._enter("fsync", raw.path)
        if fk == "fsync_fail":
            raise self._oserror(errno.EIO)
        if fk == "crash":
            self._crash()

    def stat(self, path):
        path = os.fspath(path)
        fk = self._enter("stat", path)
        if fk == "stat_fail":
            raise self._oserror(errno.EIO)
        if fk == "crash":
            self._crash()
        if path.rstrip("/") + "/" == ROOT or path == ROOT.rstrip("/"):
            return os.stat_result((stat_mod.S_IFDIR | 0o755, 1, 1, 1, 0, 0, 0,
                                   0, 0, 0))
        if path not in self.files:
            raise FileNotFoundError(errno.ENOENT, os.strerror(errno.ENOENT),
                                    path)
        return os.stat_result((stat_mod.S_IFREG | 0o644, 2, 1, 1, 0, 0,
                               len(self.files[path]), 0, 0, 0))

    def os_open(self, path, flags, mode=0o777):
        """``os.open`` on a sim path: returns a fake descriptor."""
        path = os.fspath(path)
        acc = flags & (os.O_WRONLY | os.O_RDWR)
        if not acc:
            raise OSError(errno.EINVAL, "simfs: os.open for reading only")
        fk = self._enter("open", path)
        if fk == "open_fail":
            raise self._oserror(errno.EACCES)
        if fk == "crash":
            self._crash()
        exists = path in self.files
        if exists and (flags & os.O_CREAT) and (flags & os.O_EXCL):
            raise FileExistsError(errno.EEXIST, os.strerror(errno.EEXIST), path)
        if not exists and not (flags & os.O_CREAT):
            raise FileNotFoundError(errno.ENOENT, os.strerror(errno.ENOENT),
                                    path)
        if not exists:
            self.files[path] = bytearray()
        elif flags & os.O_TRUNC:
            self.files[path] = bytearray()
        raw = SimRaw(self, path, self.gen, append=bool(flags & os.O_APPEND))
        if not (flags & os.O_APPEND):
            raw._pos = 0
        self.open_handles.append(raw)
        return self.fake_fd(raw)

    def os_write(self, fd, data):
        raw = self._fds.get(fd)
        if raw is None or raw._sim_closed:
            raise OSError(errno.EBADF, os.strerror(errno.EBADF))
        return raw.write(data)

    def os_close(self, fd):
        raw = self._fds.get(fd)
        if raw is None or raw._sim_closed:
            raise OSError(errno.EBADF, os.strerror(errno.EBADF))
        raw.close()

    def _wrap(self, raw, binary, buffering, encoding, errors, newline):
        if binary:
            if buffering == 0:
                return raw
            return io.BufferedWriter(raw, buffer_size=self.buffer_size)
        buf = io.BufferedWriter(raw, buffer_size=self.buffer_size)
        txt = io.TextIOWrapper(buf, encoding=encoding or "utf-8",
                               errors=errors, newline=newline)
        try:
            txt._CHUNK_SIZE = self.chunk_size
        except Exception:  # noqa
            pass
        return txt

    def open(self, file, mode="r", buffering=-1, encoding=None, errors=None,
             newline=None, closefd=True, opener=None):
        m = mode.replace("t", "").replace("+", "")
        binary = "b" in m
        m = m.replace("b", "")
        if opener is not None and not isinstance(file, int):
            flags = {"w": os.O_WRONLY | os.O_CREAT | os.O_TRUNC,
                     "a": os.O_WRONLY | os.O_CREAT | os.O_APPEND,
                     "x": os.O_WRONLY | os.O_CREAT | os.O_EXCL}.get(m)
            if flags is None:
                raise ValueError(f"simfs: unsupported mode {mode!r}")
            if "+" in mode:
                flags = (flags & ~os.O_WRONLY) | os.O_RDWR
            file = opener(os.fspath(file), flags | getattr(os, "O_CLOEXEC", 0))
        if isinstance(file, int):
            # a descriptor from the patched os.open: wrap its raw handle
            raw = self._fds.get(file)
            if raw is None or raw._sim_closed:
                raise OSError(errno.EBADF, os.strerror(errno.EBADF))
            if m not in ("w", "a", "x"):
                raise ValueError(f"simfs: unsupported mode {mode!r}")
            return self._wrap(raw, binary, buffering, encoding, errors, newline)
        path = os.fspath(file)
        if m in ("r",):
            if path not in self.files:
                raise FileNotFoundError(errno.ENOENT,
                                        os.strerror(errno.ENOENT), path)
            data = bytes(self.files[path])
            if binary:
                return io.BytesIO(data)
            return io.TextIOWrapper(io.BytesIO(data),
                                    encoding=encoding or "utf-8",
                                    errors=errors, newline=newline)
        if m not in ("w", "a", "x"):
            raise ValueError(f"simfs: unsupported mode {mode!r}")
        fk = self._enter("open", path)
        if fk == "open_fail":
            raise self._oserror(errno.EACCES)
        if fk == "crash":
            self._crash()
        if m == "x" and path in self.files:
            raise FileExistsError(errno.EEXIST, os.strerror(errno.EEXIST), path)
        if m in ("w", "x") or path not in self.files:
            if m in ("w", "x"):
                self.files[path] = bytearray()
            else:
                self.files.setdefault(path, bytearray())
        raw = SimRaw(self, path, self.gen, append=(m == "a"))
        self.open_handles.append(raw)
        return self._wrap(raw, binary, buffering, encoding, errors, newline)

    def raw_write(self, raw, data):
        if raw.gen != self.gen:
            return len(data)          # fenced: the dying run's writes vanish
        fk = self._enter("write", raw.path, len(data))
        if fk == "write_fail":
            raise self._oserror(errno.ENOSPC)
        if fk == "short":
            n = max(1, len(data) // 2)
            self._put(raw, data[:n])
            return n
        if fk == "crash":
            self._put(raw, data[:len(data) // 2])
            self._crash()
        self._put(raw, data)
        return len(data)

    def _put(self, raw, data):
        """O_APPEND handles write at the end; others at their own offset."""
        buf = self.files.setdefault(raw.path, bytearray())
        if raw.append:
            buf += data
        else:
            pos = raw._pos
            if pos > len(buf):
                buf += b"\0" * (pos - len(buf))
            buf[pos:pos + len(data)] = data

    def raw_truncate(self, raw, size):
        if raw.gen != self.gen:
            return size
        fk = self._enter("truncate", raw.path, size)
        if fk == "crash":
            self._crash()
        buf = self.files.setdefault(raw.path, bytearray())
        if size < len(buf):
            del buf[size:]
        else:
            buf += b"\0" * (size - len(buf))
        return size

    def raw_close(self, raw):
        if raw.gen != self.gen:
            return
        fk = self._enter("close", raw.path)
        if raw in self.open_handles:
            self.open_handles.remove(raw)
        if fk == "close_fail":
            raise self._oserror(errno.EIO)
        if fk == "crash":
            self._crash()

    # ---- installation ----------------------------------------------------
    @contextlib.contextmanager
    def installed(self):
        real_open, real_io_open, real_stat = builtins.open, io.open, os.stat
        real = {n: getattr(os, n) for n in
                ("rename", "replace", "remove", "unlink", "fsync", "open",
                 "write", "close", "lstat", "access", "listdir")}
        fs = self

        def is_fd(x):
            return isinstance(x, int) and not isinstance(x, bool) \
                and x >= 1_000_000

        def sim_os_open(path, flags, mode=0o777, *a, **kw):
            if _is_sim(path):
                return fs.os_open(path, flags, mode)
            return real["open"](path, flags, mode, *a, **kw)

        def sim_os_write(fd, data):
            if is_fd(fd):
                return fs.os_write(fd, data)
            return real["write"](fd, data)

        def sim_os_close(fd):
            if is_fd(fd):
                return fs.os_close(fd)
            return real["close"](fd)

        def sim_lstat(path, *a, **kw):
            if _is_sim(path):
                return fs.stat(path)
            return real["lstat"](path, *a, **kw)

        def sim_access(path, mode, *a, **kw):
            if _is_sim(path):
                try:
                    fs.stat(path)
                    return True
                except OSError:
                    return False
            return real["access"](path, mode, *a, **kw)

        def sim_listdir(path="."):
            if _is_sim(os.fspath(path).rstrip("/") + "/"):
                pre = os.fspath(path).rstrip("/") + "/"
                return sorted({p[len(pre):].split("/")[0]
                               for p in fs.files if p.startswith(pre)})
            return real["listdir"](path)

        def sim_rename(src, dst, *a, **kw):
            if _is_sim(src) or _is_sim(dst):
                return fs.rename(src, dst)
            return real["rename"](src, dst, *a, **kw)

        def sim_replace(src, dst, *a, **kw):
            if _is_sim(src) or _is_sim(dst):
                return fs.rename(src, dst, replace=True)
            return real["replace"](src, dst, *a, **kw)

        def sim_remove(path, *a, **kw):
            if _is_sim(path):
                return fs.remove(path)
            return real["remove"](path, *a, **kw)

        def sim_fsync(fd):
            if isinstance(fd, int) and fd >= 1_000_000:
                return fs.fsync(fd)
            return real["fsync"](fd)

        def sim_open(file, *a, **kw):
            if is_fd(file) or _is_sim(file):
                return fs.open(file, *a, **kw)
            return real_open(file, *a, **kw)

        def sim_stat(path, *a, **kw):
            if _is_sim(path):
                return fs.stat(path)
            return real_stat(path, *a, **kw)

        builtins.open = sim_open
        io.open = sim_open
        os.stat = sim_stat
        os.rename, os.replace = sim_rename, sim_replace
        os.remove = os.unlink = sim_remove
        os.fsync = sim_fsync
        os.open, os.write, os.close = sim_os_open, sim_os_write, sim_os_close
        os.lstat, os.access, os.listdir = sim_lstat, sim_access, sim_listdir
        try:
            yield self
        finally:
            builtins.open, io.open, os.stat = real_open, real_io_open, real_stat
            for n, f in real.items():
                setattr(os, n, f)

    def user_delete(self, path):
        """The user removes a file between exports (not a numbered I/O call)."""
        self.files.pop(path, None)

    # ---- operator repair after a crash / failed write --------------------
    def repair(self, path):
        """
        What an operator does before resuming: cut a torn last record (bytes
        after the last record terminator that is outside quotes) and delete a
        zero-length file.  Returns what was done.
        """
        if path not in self.files:
            return "absent"
        data = bytes(self.files[path])
        in_q = False
        last = 0
        i = 0
        while i < len(data):
            c = data[i:i + 1]
            if c == b'"':
                in_q = not in_q
            elif c == b"\n" and not in_q:
                last = i + 1
            i += 1
        did = "intact"
        if last != len(data):
            self.files[path] = bytearray(data[:last])
            did = "truncated"
        if len(self.files[path]) == 0:
            del self.files[path]
            did = "deleted"
        return did
