#!/venv/bin/python
"""
Confirm a seeded breaking change and run the property's check against it.

  eval_seeded.py <src dir with patch.diff, demo.py, notes.md> <PROP> <id> [--runs N] [--keep]

Steps (all in a scratch git worktree of /repo under /tmp, removed afterwards):
  1. demo.py on the clean tree must exit 0;
  2. patch.diff must apply; the existing test suite must still pass (244);
  3. demo.py on the patched tree must exit non-zero;
  4. the property's quick check runs against the patched tree
     (VERIF_REPO=<worktree>, outputs redirected with VERIF_OUT);
  5. the change is stored as /verif/seeded/<id>/ with meta.json.
"""

import argparse
import json
import os
import re
import shutil
import subprocess
import sys
import time

VERIF = os.path.dirname(os.path.dirname(os.path.abspath(__file__)))
PY = "/venv/bin/python"


def sh(cmd, **kw):
    return subprocess.run(cmd, capture_output=True, text=True, **kw)


def main():
    ap = argparse.ArgumentParser()
    ap.add_argument("src")
    ap.add_argument("prop")
    ap.add_argument("id")
    ap.add_argument("--runs", type=int)
    ap.add_argument("--also", nargs="*", default=[],
                    help="other properties whose checks to run as well")
    ap.add_argument("--no-store", action="store_true")
    args = ap.parse_args()
    wt = f"/tmp/wt/eval-{args.id}"
    out = f"/tmp/evalout-{args.id}"
    shutil.rmtree(out, ignore_errors=True)
    sh(["git", "-C", "/repo", "worktree", "remove", "--force", wt])
    r = sh(["git", "-C", "/repo", "worktree", "add", "-q", "--detach", wt, "HEAD"])
    if r.returncode:
        print("worktree failed", r.stderr)
        return 2
    meta = {"id": args.id, "property": args.prop, "source": args.src,
            "repo_head": sh(["git", "-C", "/repo", "rev-parse", "HEAD"]).stdout.strip()}
    env = dict(os.environ, PYTHONPATH=wt)
    try:
        demo = os.path.join(args.src, "demo.py")
        patch = os.path.join(args.src, "patch.diff")
        r = sh([PY, demo], env=env, cwd=wt, timeout=600)
        meta["demo_on_clean_exit"] = r.returncode
        r = sh(["git", "-C", wt, "apply", patch])
        meta["patch_applies"] = r.returncode == 0
        if r.returncode:
            print("patch does not apply:", r.stderr)
            print(json.dumps(meta, indent=1))
            return 2
        r = sh([PY, "-m", "pytest", "-q", "-p", "no:cacheprovider", "tests"],
               env=env, cwd=wt, timeout=1200)
        m = re.search(r"(\d+) passed", r.stdout)
        meta["tests_passed"] = int(m.group(1)) if m else 0
        meta["tests_exit"] = r.returncode
        r = sh([PY, demo], env=env, cwd=wt, timeout=600)
        meta["demo_on_patched_exit"] = r.returncode
        meta["confirmed"] = bool(
            meta["demo_on_clean_exit"] == 0 and meta["patch_applies"]
            and meta["tests_exit"] == 0 and meta["tests_passed"] >= 244
            and meta["demo_on_patched_exit"] != 0)
        meta["checks"] = {}
        for prop in [args.prop] + list(args.also):
            cenv = dict(os.environ, VERIF_REPO=wt, VERIF_OUT=out,
                        VERIF_MIN_BUDGET="120")
            cmd = [PY, os.path.join(VERIF, "check.py"), "run", prop]
            if args.runs:
                cmd += ["--runs", str(args.runs)]
            t0 = time.monotonic()
            r = sh(cmd, env=cenv, timeout=7200)
            dt = time.monotonic() - t0
            classes = re.findall(r"failure class '([^']+)': (\d+) runs", r.stdout)
            viol = [ln for ln in r.stdout.splitlines() if ln.startswith("VIOLATION")]
            meta["checks"][prop] = {
                "cmd": " ".join(cmd[1:]) + f"  (VERIF_REPO={wt})",
                "exit": r.returncode, "caught": r.returncode == 1 and bool(viol),
                "wall_s": round(dt, 1),
                "failure_classes": [f"{c} x{n}" for c, n in classes][:8],
                "first_violation_detail": next(
                    (ln.strip()[:600] for ln in r.stdout.splitlines()
                     if ln.strip().startswith("violation class")), None),
                "tail": r.stdout.strip().splitlines()[-1][:300] if r.stdout.strip() else r.stderr[-300:],
            }
        meta["caught_by"] = [p for p, c in meta["checks"].items() if c["caught"]]
    finally:
        sh(["git", "-C", "/repo", "worktree", "remove", "--force", wt])
        shutil.rmtree(out, ignore_errors=True)
    notes = os.path.join(args.src, "notes.md")
    if os.path.exists(notes):
        meta["needs_to_manifest"] = open(notes).read().strip()[:2500]
    print(json.dumps({k: meta[k] for k in meta if k != "needs_to_manifest"}, indent=1))
    if not args.no_store:
        dst = os.path.join(VERIF, "seeded", args.id)
        os.makedirs(dst, exist_ok=True)
        for f in ("patch.diff", "demo.py", "notes.md"):
            if os.path.exists(os.path.join(args.src, f)):
                shutil.copy(os.path.join(args.src, f), os.path.join(dst, f))
        with open(os.path.join(dst, "meta.json"), "w") as fh:
            json.dump(meta, fh, indent=1)
            fh.write("\n")
    return 0


if __name__ == "__main__":
    sys.exit(main())
