#!/venv/bin/python
"""
Run the checks against a behaviour-preserving refactoring: they must stay
silent (exit 0, no VIOLATION line).

  eval_benign.py <src dir with patch.diff [, check.py]> <id> <PROP> [<PROP>...]
"""
import json
import os
import re
import shutil
import subprocess
import sys
import time

VERIF = os.path.dirname(os.path.dirname(os.path.abspath(__file__)))
PY = "/venv/bin/python"


def sh(cmd, **kw):
    return subprocess.run(cmd, capture_output=True, text=True, **kw)


def main():
    src, ident, props = sys.argv[1], sys.argv[2], sys.argv[3:]
    wt = f"/tmp/wt/evalb-{ident}"
    out = f"/tmp/evalbout-{ident}"
    shutil.rmtree(out, ignore_errors=True)
    sh(["git", "-C", "/repo", "worktree", "remove", "--force", wt])
    sh(["git", "-C", "/repo", "worktree", "add", "-q", "--detach", wt, "HEAD"])
    meta = {"id": ident, "source": src, "checks": {}}
    try:
        r = sh(["git", "-C", wt, "apply", os.path.join(src, "patch.diff")])
        meta["patch_applies"] = r.returncode == 0
        env = dict(os.environ, PYTHONPATH=wt)
        r = sh([PY, "-m", "pytest", "-q", "-p", "no:cacheprovider", "tests"],
               env=env, cwd=wt, timeout=1200)
        m = re.search(r"(\d+) passed", r.stdout)
        meta["tests_passed"] = int(m.group(1)) if m else 0
        chk = os.path.join(src, "check.py")
        if os.path.exists(chk):
            r = sh([PY, chk], env=env, cwd=wt, timeout=3600)
            meta["authors_check_exit"] = r.returncode
        for prop in props:
            cenv = dict(os.environ, VERIF_REPO=wt, VERIF_OUT=out,
                        VERIF_MIN_BUDGET="60")
            t0 = time.monotonic()
            r = sh([PY, os.path.join(VERIF, "check.py"), "run", prop],
                   env=cenv, timeout=7200)
            classes = re.findall(r"failure class '([^']+)': (\d+) runs", r.stdout)
            meta["checks"][prop] = {
                "exit": r.returncode,
                "silent": r.returncode == 0 and "VIOLATION" not in r.stdout,
                "wall_s": round(time.monotonic() - t0, 1),
                "failure_classes": [f"{c} x{n}" for c, n in classes][:6],
                "first_violation_detail": next(
                    (ln.strip()[:900] for ln in r.stdout.splitlines()
                     if ln.strip().startswith("violation class")), None),
                "tail": (r.stdout.strip().splitlines() or [r.stderr[-300:]])[-1][:300],
            }
    finally:
        sh(["git", "-C", "/repo", "worktree", "remove", "--force", wt])
        shutil.rmtree(out, ignore_errors=True)
    print(json.dumps(meta, indent=1))
    dst = os.path.join(VERIF, "benign", ident)
    os.makedirs(dst, exist_ok=True)
    for f in ("patch.diff", "check.py", "notes.md"):
        if os.path.exists(os.path.join(src, f)):
            shutil.copy(os.path.join(src, f), os.path.join(dst, f))
    json.dump(meta, open(os.path.join(dst, "meta.json"), "w"), indent=1)


if __name__ == "__main__":
    main()
