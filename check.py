#!/venv/bin/python
"""
Entry point of the pyTRS deterministic-simulation checks.

  check.py run <C13|C14|C15|C19> [--tier quick|thorough] [--runs N] [--workers N]
  check.py replay <file> [--quiet]
  check.py selftest <determinism|sensitivity|simfs> [...]
  check.py setup

Exit codes: 0 = property held on everything explored (KNOWN-FINDING lines may
be printed); 1 = at least one `VIOLATION property=<id> replay=<path>` line;
2 = HARNESS-ERROR (a hang, a crash of the harness, a failure that does not
replay) -- never reported as a verdict.
"""

import argparse
import json
import os
import sys
import time

HERE = os.path.dirname(os.path.abspath(__file__))
if HERE not in sys.path:
    sys.path.insert(0, HERE)


def _reexec_pinned():
    """Pin the harness's own hash order; pyTRS must not care (selftest)."""
    if os.environ.get("VERIF_NO_REEXEC") == "1":
        return
    if os.environ.get("PYTHONHASHSEED") == "0":
        return
    env = dict(os.environ)
    env["PYTHONHASHSEED"] = "0"
    os.execve(sys.executable, [sys.executable] + sys.argv, env)


TIERS = {
    # property: {tier: runs}
    "C14": {"quick": 10000, "thorough": 400000},
    "C13": {"quick": 5000, "thorough": 200000},
    "C15": {"quick": 6000, "thorough": 300000},
    "C19": {"quick": 1200, "thorough": 40000},
}


def cmd_run(args):
    from sim import engine
    engine.ensure_repo_on_path()
    prop = args.prop
    m = engine.load_machine(prop)
    tier = args.tier or os.environ.get("VERIF_TIER") or "quick"
    if tier not in ("quick", "thorough"):
        tier = "quick"
    seed = int(os.environ.get("VERIF_SEED", "0") or 0)
    runs = args.runs or TIERS[prop][tier]
    workers = args.workers or int(os.environ.get("VERIF_WORKERS", "0") or 0) \
        or (os.cpu_count() or 1)
    t0 = time.monotonic()
    print(f"[{prop}/{m.NAME}] tier={tier} VERIF_SEED={seed} runs={runs} "
          f"workers={workers} repo={engine.REPO} "
          f"tree={engine.tree_digest()[:12]}", flush=True)

    last = [t0]

    def progress(agg):
        now = time.monotonic()
        if now - last[0] > 15:
            last[0] = now
            print(f"  ... {agg['runs']}/{runs} runs, "
                  f"{len(agg['failures'])} failing, "
                  f"{len(agg['harness_errors'])} harness errors", flush=True)

    agg = engine.run_batch(prop, seed, runs, workers, progress=progress)
    extra = {}
    if hasattr(m, "post_batch"):
        extra = m.post_batch(agg, seed, tier) or {}
    exit_code = 0

    # ---- failures -> minimise -> replay file -> classify
    known, _fixed = engine.load_known()
    by_sig = {}
    for f in agg["failures"]:
        by_sig.setdefault(engine.signature(f), []).append(f)
    violations, known_hits, unreplayable = [], [], []
    for sig in sorted(by_sig)[:8]:
        group = by_sig[sig]
        group.sort(key=lambda f: (len(engine.canon(f["plan"])), f["i"]))
        f0 = group[0]
        print(f"  failure class {sig!r}: {len(group)} runs; minimising run "
              f"{f0['i']} ...", flush=True)
        small = engine.minimise(m, f0["plan"], sig,
                                budget=int(os.environ.get("VERIF_MIN_BUDGET", "300")))
        f_small = engine.fails_same(m, small, sig) or f0
        path = engine.write_replay(prop, seed, f0["i"], small, f_small,
                                   engine.plan_digest(f0["plan"]))
        ok, out = engine.replay_fresh(path)
        if not ok:
            unreplayable.append((sig, path, out[-1500:]))
            continue
        ent = engine.match_known(known, prop, f_small, small)
        if ent is not None:
            known_hits.append((ent, sig, path, len(group)))
        else:
            violations.append((sig, path, len(group), f_small))
    if len(by_sig) > 8:
        print(f"  ({len(by_sig) - 8} further failure classes not minimised)")
    for ent, sig, path, n in known_hits:
        print(f"KNOWN-FINDING: property={prop} {ent.get('what', sig)} "
              f"[{n} runs, e.g. {path}]")
    for sig, path, n, f in violations:
        print(f"  violation class {sig!r} in {n} runs; minimised: "
              f"{json.dumps(f.get('detail'))[:1500]}")
        print(f"VIOLATION property={prop} replay={path}")
        exit_code = 1
    for sig, path, out in unreplayable:
        print(f"HARNESS-ERROR property={prop} failure {sig!r} did not replay "
              f"in a fresh interpreter ({path}):\n{out}")
        exit_code = max(exit_code, 2) if exit_code != 1 else 1
    for i, err in agg["harness_errors"][:5]:
        print(f"HARNESS-ERROR property={prop} run={i}: {err}")
    if agg["harness_errors"] or agg["skipped_for_budget"]:
        exit_code = exit_code or 2

    # ---- evidence
    wall = time.monotonic() - t0
    samples = [{"run_index": i, "plan": p} for i, p in agg["samples"][:4]]
    cov = {
        "evaluations": agg["runs"],
        "distinct_nontrivial": len(agg["nontrivial"]),
        "rule": m.RULE,
        "samples": samples,
        "exhaustive": False,
        "executions_in_forks": agg["execs"],
        "logical_steps": agg["steps"],
        "simulated_time_note": (
            "pyTRS reads no clock; the only 'time' is the count of executed "
            "API calls (logical_steps) and, where interrupts are enabled, "
            "traced line events"),
        "runs_per_hour": int(agg["runs"] / max(wall, 1e-9) * 3600),
        "seeds": f"derive(VERIF_SEED={seed}, '{prop}', i) for i in [0,{runs})",
        "distinct_op_shape_sequences": len(agg["shapes"]),
        "probes": dict(sorted(agg["stats"].items())),
        "batch_digest": agg["batch_digest"],
        "harness_errors": len(agg["harness_errors"]),
        "failure_classes": sorted(by_sig),
        "known_findings_hit": [e.get("id") for e, *_ in known_hits],
        "components": getattr(m, "COMPONENTS", {
            "real": ["all of pytrs (imported from the working tree)"],
            "stubbed": []}),
        "repo_tree_digest": engine.tree_digest(),
        "workers": workers,
    }
    cov.update(extra)
    doc = {
        "property_id": prop,
        "tier": tier,
        "seed": seed,
        "level": m.LEVEL,
        "coverage": cov,
        "assumptions": m.ASSUMPTIONS,
        "wall_s": round(wall, 2),
        "violations": len(violations),
    }
    path = engine.write_evidence(prop, doc)
    print(f"[{prop}] runs={agg['runs']} nontrivial_distinct="
          f"{len(agg['nontrivial'])} shapes={len(agg['shapes'])} "
          f"violations={len(violations)} known={len(known_hits)} "
          f"harness_errors={len(agg['harness_errors'])} wall={wall:.1f}s "
          f"digest={agg['batch_digest'][:16]} evidence={path}")
    return exit_code


def cmd_replay(args):
    from sim import engine
    same, res = engine.replay_file(args.path, quiet=args.quiet)
    if same:
        with open(args.path) as fh:
            doc = json.load(fh)
        if not args.quiet:
            print(f"VIOLATION property={doc['property']} replay={args.path}")
        return 1
    return 0


def cmd_selftest(args):
    from sim import selftest
    return selftest.main(args.which, args.rest)


def cmd_probe_fresh(args):
    """Evaluate a C15 probe in this brand-new interpreter (stdin: JSON)."""
    from sim import engine
    engine.ensure_repo_on_path()
    from sim.machines import proc
    doc = json.load(sys.stdin)
    print(proc.fresh_outcomes(doc["probe"], doc["mc_script"]))
    return 0


def cmd_digest(args):
    """Print {run index: event-log digest} for runs [0, n) (determinism test)."""
    from sim import engine
    engine.ensure_repo_on_path()
    seed = int(os.environ.get("VERIF_SEED", "0") or 0)
    agg = engine.run_batch(args.prop, seed, args.n, args.workers)
    if agg["harness_errors"]:
        print(json.dumps({"harness_errors": agg["harness_errors"][:3]}))
        return 2
    print(json.dumps({str(i): agg["logs"][i] for i in sorted(agg["logs"])}))
    return 0


def cmd_setup(args):
    from sim import engine
    pytrs = engine.ensure_repo_on_path()
    for p in ("/root/.vp/EVIDENCE.schema.json", "/root/.vp/MANIFEST.schema.json"):
        if os.path.exists(p):
            json.load(open(p))
    with open(os.path.join(HERE, "MANIFEST.json")) as fh:
        json.load(fh)
    os.makedirs(os.path.join(HERE, "evidence"), exist_ok=True)
    os.makedirs(os.path.join(HERE, "replays"), exist_ok=True)
    print(f"setup ok: pytrs {pytrs.__version__} from {engine.REPO}, "
          f"python {sys.version.split()[0]}")
    return 0


def main():
    _reexec_pinned()
    ap = argparse.ArgumentParser()
    sub = ap.add_subparsers(dest="cmd", required=True)
    r = sub.add_parser("run")
    r.add_argument("prop", choices=sorted(TIERS))
    r.add_argument("--tier", choices=("quick", "thorough"))
    r.add_argument("--runs", type=int)
    r.add_argument("--workers", type=int)
    r.set_defaults(fn=cmd_run)
    p = sub.add_parser("replay")
    p.add_argument("path")
    p.add_argument("--quiet", action="store_true")
    p.set_defaults(fn=cmd_replay)
    s = sub.add_parser("selftest")
    s.add_argument("which")
    s.add_argument("rest", nargs="*")
    s.set_defaults(fn=cmd_selftest)
    dg = sub.add_parser("digest")
    dg.add_argument("prop", choices=sorted(TIERS))
    dg.add_argument("n", type=int)
    dg.add_argument("--workers", type=int, default=1)
    dg.set_defaults(fn=cmd_digest)
    pf = sub.add_parser("probe-fresh")
    pf.set_defaults(fn=cmd_probe_fresh)
    u = sub.add_parser("setup")
    u.set_defaults(fn=cmd_setup)
    args = ap.parse_args()
    sys.exit(args.fn(args))


if __name__ == "__main__":
    main()
